"""psv.props — which rules decide which property."""
from . import core
from .report import Check
from .rules import cw, ed, mt


def c18(tier):
    C = Check("C18", tier,
              explanation="Static rules over the type-checked AST/CFG of src/cinter/splinetable.cpp and the whole-program "
              "exception-effect summary: header/definition exhaustiveness (CW-0), containment of every raising element in a "
              "swallowing catch(...) (CW-1), failure values in handlers and rejections (CW-2), propagation of bool failure "
              "results (CW-3), handle and result ownership (CW-4), forwarding of parameters and results (CW-5). "
              "Decides the wrapper's shape; does not decide numerical equality of results beyond forwarding.",
              assumptions=["extern \"C\" library functions (cfitsio, CHOLMOD, libc) do not raise C++ exceptions",
                           "libstdc++ algorithms on scalar ranges listed in core.NOTHROW_TABLE do not raise"])
    P = core.load(tier=tier)
    cw.run(P, C)
    C.extra["units"] = sorted(P.units.keys())
    C.extra["functions_analysed"] = len(P.functions)
    return C.finish()


def c08(tier):
    C = Check("C08", tier,
              explanation="Error discipline of the FITS write path, decided on the CFG of the instantiated writers: no cfitsio status is "
              "dropped before a normal exit (ED-1), the success path passes through a checked fits_close_file with the scope guard disarmed "
              "(ED-2), creation status is checked before the handle is used (ED-3); the C wrappers contain and map failures (CW-1/CW-2). "
              "Decides 'no error from the FITS layer is dropped, including at close'; does not decide what a reader does with a truncated "
              "file (behaviour of cfitsio on partial HDUs).",
              assumptions=["cfitsio's inherited-status convention: a call made with non-zero *status does nothing and keeps it",
                           "exceptional paths are not in the CFG (no EH edges): a throw leaves the writer with a failure, which is what the property wants"])
    P = core.load(tier=tier)
    n = ed.run(P, C)
    cw.cw1(P, C, only=("writesplinefitstable", "writesplinefitstable_mem"))
    cw.cw2(P, C, only=("writesplinefitstable", "writesplinefitstable_mem"))
    C.extra["units"] = sorted(P.units.keys())
    C.extra["cfitsio_call_sites"] = n
    return C.finish()


def c12(tier):
    C = Check("C12", tier,
              explanation="Monitor discipline of the coordinator/worker hand-shake in cholesky_solve.c decided by a disjunctive forward dataflow "
              "(lock held, predicate tested since acquisition, store not yet broadcast, all-idle phase; path-sensitive on constant locals) over the "
              "CFGs of walk_descents and evaluate_descent: lockset (MT-1), wait predicate / no lost wake-up (MT-2), signal after store (MT-3), "
              "hand-off of worker-owned fields (MT-4), lifecycle (MT-5), completion-order independence of the selection (MT-6), read-only use of "
              "objects shared by all workers (MT-7). Decides the protocol shape; equality of results across worker counts is argued, not decided; "
              "races inside CHOLMOD are not analysed.",
              assumptions=["POSIX semantics of pthread_cond_wait (atomically releases and re-acquires the mutex; spurious wake-ups allowed)",
                           "trial 0 receives &mutex/&cv and the others are memcpy'd from it (checked): one mutex, one condition variable"])
    P = core.load(tier=tier)
    mt.run(P, C)
    C.extra["units"] = sorted(P.units.keys())
    return C.finish()


TABLE = {"C18": c18, "C08": c08, "C12": c12}


def run(prop, tier):
    if prop not in TABLE:
        print("property %s is not claimed by this framework (see MANIFEST.not_applicable)" % prop)
        return 2
    return TABLE[prop](tier)
