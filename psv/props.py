"""psv.props — which rules decide which property."""
from . import core
from .report import Check
from .rules import cw, ed, mt, ts, vg, pm, ax, kb, dp, sg, uw, sm, fs, tc, ge, nl, sp, gw, rt, st, nb
from . import selftest
import functools
import inspect
import types


def _resilient(mod):
    """A rule that cannot be applied (its anchor vanished, it cannot identify the objects it talks about) must not keep the other rules
    of the property from running: what they report on the same tree is still a report.  Every rule entry point `rule(P, C, ...)` of
    the rule modules records an AnalysisBroken (or an internal error on an unexpected shape) in core.BROKEN and returns; Check.finish
    turns the record into exit 2 — unless a rule that did run reports a violation, which is then what the check says (exit 1)."""
    for name, fn in list(vars(mod).items()):
        if not isinstance(fn, types.FunctionType) or fn.__module__ != mod.__name__ or name.startswith("_"):
            continue
        try:
            ps = list(inspect.signature(fn).parameters)
        except (TypeError, ValueError):
            continue
        if ps[:2] != ["P", "C"]:
            continue

        def make(fn=fn, name=name):
            @functools.wraps(fn)
            def w(*a, **k):
                try:
                    return fn(*a, **k)
                except core.AnalysisBroken as e:
                    core.BROKEN.append("%s.%s: %s" % (mod.__name__.split(".")[-1], name, e))
                except (KeyError, IndexError, TypeError, ValueError, AttributeError, StopIteration) as e:
                    core.BROKEN.append("%s.%s: internal error on a shape the rule does not know (%s: %s)" % (mod.__name__.split(".")[-1], name, type(e).__name__, e))
                return None
            return w
        setattr(mod, name, make())


for _m in (cw, ed, mt, ts, vg, pm, ax, kb, dp, sg, uw, sm, fs, tc, ge, nl, sp, gw, rt, st):
    _resilient(_m)


def c18(tier):
    C = Check("C18", tier,
              explanation="Static rules over the type-checked AST/CFG of src/cinter/splinetable.cpp and the whole-program "
              "exception-effect summary: header/definition exhaustiveness (CW-0), containment of every raising element in a "
              "swallowing catch(...) (CW-1), failure values in handlers and rejections (CW-2), propagation of bool failure "
              "results (CW-3), handle and result ownership (CW-4), forwarding of parameters and results (CW-5). "
              "Decides the wrapper's shape; does not decide numerical equality of results beyond forwarding.",
              assumptions=["extern \"C\" library functions (cfitsio, CHOLMOD, libc) do not raise C++ exceptions",
                           "libstdc++ algorithms on scalar ranges listed in core.NOTHROW_TABLE do not raise"])
    P = core.load(tier=tier, extra_units=selftest.UNITS)
    selftest.run(P, C, ('cw1', 'nl1', 'ts2'))
    cw.run(P, C)
    C.extra["fitter_returns_checked"] = tc.run(P, C)
    # the wrappers forward to member functions on tables built by any populating operation: none of them may trip over an array
    # that such a table legitimately lacks (a crash is not a non-zero return)
    nl.nl1(P, C)
    # 'releases every resource exactly once': the FITS handle of a refused or failed read is closed on every path
    ed.rh1(P, C)
    # splinetable_free deletes the table, whose destructor releases through clear(): full field coverage, no early exit (TS-4/TS-6)
    ts.reset_fn_ok(P, C)
    ed.ed4(P, C)
    # the write wrappers release the FITS handle exactly once, also when the final close fails (ED-2: guard disarmed before the close)
    ed.run(P, C)
    # a rejected fit releases what it had built: every rejection precedes the CHOLMOD workspace
    ed.rh2(P, C)
    # a handle that was only initialised holds an empty table: the wrapped lookup / grid evaluation must fail, not crash the process
    pm.es2(P, C)
    # readsplinefitstable constructs the table from the path: a constructor that throws runs no destructor, so the read itself has to
    # release what it had built (the window rule on the read path)
    ts.ts2(P, C, only=("read_fits", "read_fits_mem", "read_fits_core", "splinetable(std::string,photospline::splinetable)"), rule_floor=4)
    # a C caller hands splinetable_convolve whatever pointer it has — splinetable_knots(t, dim) + k included: the member it forwards to
    # reads the kernel only while the table's own knot arrays are still alive
    uw.uw8(P, C)
    C.extra["units"] = sorted(P.units.keys())
    C.extra["functions_analysed"] = len(P.functions)
    return C.finish()


def c08(tier):
    C = Check("C08", tier,
              explanation="Error discipline of the FITS write path, decided on the CFG of the instantiated writers: no cfitsio status is "
              "dropped before a normal exit (ED-1), the success path passes through a checked fits_close_file with the scope guard disarmed "
              "(ED-2), creation status is checked before the handle is used (ED-3); the C wrappers contain and map failures (CW-1/CW-2). "
              "Decides 'no error from the FITS layer is dropped, including at close'; does not decide what a reader does with a truncated "
              "file (behaviour of cfitsio on partial HDUs).",
              assumptions=["cfitsio's inherited-status convention: a call made with non-zero *status does nothing and keeps it",
                           "exceptional paths are not in the CFG (no EH edges): a throw leaves the writer with a failure, which is what the property wants"])
    P = core.load(tier=tier, extra_units=selftest.UNITS)
    selftest.run(P, C, ('cw1','ed1'))
    n = ed.run(P, C)
    cw.cw1(P, C, only=("writesplinefitstable", "writesplinefitstable_mem"))
    cw.cw2(P, C, only=("writesplinefitstable", "writesplinefitstable_mem"))
    if tier == "thorough":
        py_write(P, C)
    # the other half of the property: a truncated file is rejected, not loaded as another table (reader's full-range validations)
    vg.vg2(P, C)
    ed.ed5(P, C)
    ed.ed6(P, C)
    ed.ed7(P, C)
    ed.ed8(P, C)
    C.extra["units"] = sorted(P.units.keys())
    C.extra["cfitsio_call_sites"] = n
    return C.finish()


def py_write(P, C):
    """thorough only: the Python binding's write method (extra unit, not part of the configured build)."""
    C.rule("PY-1", "pysplinetable_write: the write_fits call lies in a try whose handler for std::exception sets the Python error and returns NULL", floor=1)
    fs = [f for f in P.fns("pysplinetable_write") if f.unit == "python"]
    if len(fs) != 1:
        raise core.AnalysisBroken("python unit: pysplinetable_write not found")
    f = fs[0]
    calls = [i for i, cal in f.calls() if cal and cal["name"] == "write_fits"]
    ok = False
    det = "no write_fits call"
    for i in calls:
        for (t, in_try, _h) in f.enclosing_try(i):
            if not in_try:
                continue
            for h in f.nodes[t]["handlers"]:
                hn = f.nodes[h]
                if hn.get("catchAll") or "std::exception" in hn.get("catchType", ""):
                    sets = any(cal and cal["name"] == "PyErr_SetString" for _x, cal in f.calls(h))
                    rets = [r for r in f.walk(h) if f.k(r) == "ReturnStmt"]
                    nul = bool(rets) and all(ts.is_null(f, f.nodes[r]["value"]) for r in rets)
                    ok = sets and nul
                    det = "handler %s sets the Python error=%s, returns NULL=%s" % (hn.get("catchType") or "...", sets, nul)
    C.ob("PY-1", "pysplinetable_write", "maps-failure", ok, f.where(), det)


def c12(tier):
    C = Check("C12", tier,
              explanation="Monitor discipline of the coordinator/worker hand-shake in cholesky_solve.c decided by a disjunctive forward dataflow "
              "(lock held, predicate tested since acquisition, store not yet broadcast, all-idle phase; path-sensitive on constant locals) over the "
              "CFGs of walk_descents and evaluate_descent: lockset (MT-1), wait predicate / no lost wake-up (MT-2), signal after store (MT-3), "
              "hand-off of worker-owned fields (MT-4), lifecycle (MT-5), completion-order independence of the selection (MT-6), read-only use of "
              "objects shared by all workers (MT-7). Decides the protocol shape; equality of results across worker counts is argued, not decided; "
              "races inside CHOLMOD are not analysed.",
              assumptions=["POSIX semantics of pthread_cond_wait (atomically releases and re-acquires the mutex; spurious wake-ups allowed)",
                           "trial 0 receives &mutex/&cv and the others are memcpy'd from it (checked): one mutex, one condition variable"])
    P = core.load(tier=tier, extra_units=selftest.UNITS)
    selftest.run(P, C, ('mt',))
    mt.run(P, C)
    mt.mt9(P, C)
    mt.mt10(P, C)
    # the protocol the rules see is the protocol that is built: no lock, wait or store hides inside an assert (gone with NDEBUG)
    kb.as2(P, C)
    # no state outside the job structures is shared between the workers
    selftest.run(P, C, ('re1',))
    dp.re1(P, C)
    C.extra["units"] = sorted(P.units.keys())
    return C.finish()


def c20(tier):
    C = Check("C20", tier,
              explanation="Ownership typestate of splinetable<std::allocator<void>> decided on the instantiated bodies of every mutator "
              "(driver unit): no-throw window with resetting handlers / armed cleanup guards (TS-2), initialisation of owned-pointer arrays "
              "before the next raising element (TS-2b), emptiness guard before populating (TS-3), field coverage and count agreement of "
              "clear(), move construction and move assignment (TS-4), local heap pairing (TS-5), release independent of ndim (TS-6), "
              "nullable per-dimension arrays dereferenced only under a test (NL-1), count arrays allocated before the arrays they size (NL-2). "
              "Decides: a failed operation leaves the table unchanged or empty and destructible, a populated table is never overwritten, "
              "a moved-from table is empty, every allocation has a matching release. Does not decide behaviour over operation sequences "
              "against an abstract model, nor allocators with fancy pointers.",
              assumptions=["std::allocator semantics: deallocate does not raise",
                           "exceptions are raised only at the elements the effect summary marks (throw, operator new, calls to raising functions)"])
    P = core.load(tier=tier, extra_units=selftest.UNITS)
    selftest.run(P, C, ('ts2', 'nl1'))
    ts.run_c20(P, C)
    ts.ts7(P, C)
    ts.ts8(P, C)
    ts.ts9(P, C)
    ts.ts10(P, C)
    ts.ts10b(P, C)
    ts.ts4d(P, C)
    ts.ts3b(P, C)
    nl.nl1(P, C)
    nl.nl2(P, C)
    nl.nl3(P, C)
    # invalid arguments of convolve are refused before anything is read or changed
    uw.vg4(P, C)
    # a FITS handle opened by a failed operation is closed on every path (all memory *and* handles are returned)
    ed.rh1(P, C)
    ed.rh2(P, C)
    # comparison is one of the operations of a history: it must be total (two empty tables)
    pm.es1(P, C)
    pm.es2(P, C)
    C.extra["units"] = sorted(P.units.keys())
    C.extra["mutators"] = [ts.fshort(f) for f in ts.mutators(P)]
    # an operation given containers of the wrong length refuses them; it does not subscript past their end (assert is not a check)
    kb.kb10(P, C)
    st.st1(P, C)
    # construction by stacking fills every per-dimension attribute of every dimension (the arrays come uninitialised)
    st.fc1(P, C)
    nl.nl4(P, C)
    # a table built by stacking is well-formed: the stacking order is one the number of tables supports
    vg.vg6(P, C)
    # the operation is a function of its arguments and the table: no scratch kept between calls (two threads, two tables)
    selftest.run(P, C, ('re1',))
    dp.re1(P, C)
    # release sizes of the key store; the stacking constructor's coefficient interleave
    ax.km7(P, C)
    st.fc2(P, C)
    # no counting loop over an array of N entries runs to N inclusive
    nb.nb1(P, C, 'all')
    return C.finish()


def c13(tier):
    C = Check("C13", tier,
              explanation="fit's argument validation decided on the instantiated bodies (both container instantiations): each hazardous use of an "
              "argument has a throwing guard in canonical relational form that dominates the first member store, per-dimension guards cover "
              "every dimension (VG-1); no raising element leaves a modified table unprotected (TS-2); the table must be empty to be fitted "
              "(TS-3); the C wrapper contains and maps failures (CW-1/CW-2). Decides presence, shape and placement of the guards; does not "
              "decide memory safety inside CHOLMOD / the GLAM reshaping for valid arguments.",
              assumptions=["the hazards listed in psv/rules/vg.py FIT_OBLIGATIONS are the uses of the arguments that need a guard (derived by reading glam.c, splineutil.c)"])
    P = core.load(tier=tier, extra_units=selftest.UNITS)
    selftest.run(P, C, ('ts2','cw1','sp'))
    vg.vg1(P, C)
    # 'never reads or writes out of bounds', the part visible in the code's shape inside the solver: no stale or released CHOLMOD arrays
    sp.sp1(P, C, floor=3)
    sp.sp2(P, C)
    # 'completes or throws': every recursion reached from fit bottoms out for every admitted argument (penalty order 0 included)
    rt.rt1(P, C)
    # the anchor 'variable-length stack arrays sized by the spline order inside the penalty recursion'
    kb.kb6f(P, C)
    ts.ts2(P, C, only=("fit",), rule_floor=2)
    ts.ts3(P, C, only=("fit",))
    cw.cw1(P, C, only=("splinetable_glamfit",))
    cw.cw2(P, C, only=("splinetable_glamfit",))
    C.extra["units"] = sorted(P.units.keys())
    sp.mm1(P, C)
    # a scalar argument is broadcast by its own length, never by another argument's (a one-element list indexed by the dimension)
    gw.gw1(P, C)
    # no counting loop over an array of N entries runs to N inclusive
    nb.nb1(P, C, 'fit')
    return C.finish()


def c07(tier):
    C = Check("C07", tier,
              explanation="Reader robustness decided structurally: a failing read leaves an empty, destructible object (TS-2/TS-2b on read_fits, "
              "read_fits_mem, read_fits_core and the file constructor; clear() coverage TS-4), a successful read has passed the validations "
              "that make lookup and evaluation safe (VG-2, with infeasible status branches pruned by a known-zero status dataflow), the "
              "emptiness guard precedes populating (TS-3), and the C readers contain and map failures (CW-1/CW-2). Does not decide cfitsio's "
              "behaviour on corrupted bytes nor termination of evaluation on a loaded table.",
              assumptions=["cfitsio reports malformed HDUs through its status argument"])
    P = core.load(tier=tier, extra_units=selftest.UNITS)
    selftest.run(P, C, ('ts2','cw1'))
    ts.ts2(P, C, only=("read_fits", "read_fits_mem", "read_fits_core", "splinetable(std::string,photospline::splinetable)"), rule_floor=4)
    r = ts.reset_fn_ok(P, C)
    if r is None:
        C.ob("TS-4", "~splinetable", "reset-function", False, "include/photospline/splinetable.h",
             "no clear() member: a partially read table cannot be released")
    ts.ts3(P, C, only=("read_fits_core", "read_fits", "read_fits_mem"))
    vg.vg2(P, C)
    vg.vg2c(P, C)
    # ... and the axis lengths of the image against each other: their product sizes the coefficient array
    vg.vg2e(P, C)
    # the first-pixel array of every pixel read is as long as the image has axes, and the image has no more axes than cfitsio handles
    vg.vg2f(P, C)
    # 'on every table that a read returns, evaluation is memory-safe': whichever core the evaluator selects for a loaded table walks the
    # coefficients as the generic core does
    dp.cl1(P, C)
    # ... and the stack arrays sized by the order need the order bounded
    kb.kb9(P, C)
    # a crafted file cannot make the reader transfer more elements than the array it allocated holds
    fs.fs7(P, C)
    cw.cw1(P, C, only=("readsplinefitstable", "readsplinefitstable_mem"))
    cw.cw2(P, C, only=("readsplinefitstable", "readsplinefitstable_mem"))
    # the C readers leave the handle null or valid whatever happens to the read
    cw.cw4(P, C, only=("readsplinefitstable", "readsplinefitstable_mem"))
    C.extra["units"] = sorted(P.units.keys())
    sm.vg5(P, C)
    # 'on every table that a read returns, lookup terminates and is memory-safe': the reader admits repeated knots, on which the bisection
    # alone neither stays inside [order, naxes-1] nor terminates at the last knot — the range short-cuts of searchcenters are what bounds it
    kb.sc123(P, C)
    # ... and the gradient's lane budget: an 8-dimensional table loads, its gradient must be refused, not evaluated in 8 lanes
    kb.kb3(P, C)
    # the rows of the extents block are set up before the fallback for files without EXTENTS writes through them
    nl.nl4(P, C)
    # no counting loop over an array of N entries runs to N inclusive
    nb.nb1(P, C, 'reader')
    return C.finish()


def c15(tier):
    C = Check("C15", tier,
              explanation="permuteDimensions decided structurally on its instantiated body: every per-dimension member (derived from clear()) is "
              "rewritten (TS-4p); all attribute gathers use one index pair (i, permutation[i]), temporaries are copied back to the member they "
              "were gathered from, the inverse map is built and used only to scatter coefficients with the new strides, strides are recomputed "
              "from the permuted axes (CL-5); the argument is validated as a permutation before any member write (VG-3); nothing that may "
              "raise follows the first member write (TS-2); the C wrapper maps failures (CW-1/2). Identities are by declaration, not by name. "
              "Does not decide the arithmetic of the coefficient transposition over runtime shapes, nor the inverse round trip.",
              assumptions=["extents may be null only for tables built by the stacking constructor; permuteDimensions assumes it is present"])
    P = core.load(tier=tier, extra_units=selftest.UNITS)
    selftest.run(P, C, ('ts2', 'nl1'))
    pm.run(P, C)
    nl.nl1(P, C, floor=8, only=("permuteDimensions",))
    # a permuted table is served by the specialisation of its *new* order pattern: the admission predicate is position-wise
    dp.dp8(P, C)
    ts.ts2(P, C, only=("permuteDimensions",), rule_floor=1)
    cw.cw1(P, C, only=("splinetable_permute",))
    cw.cw2(P, C, only=("splinetable_permute",))
    C.extra["units"] = sorted(P.units.keys())
    st.st1(P, C, only=('permuteDimensions',))
    # the operation is a function of its arguments and the table: no scratch kept between calls (two threads, two tables)
    selftest.run(P, C, ('re1',))
    dp.re1(P, C)
    fs.fs15(P, C)
    # no counting loop over an array of N entries runs to N inclusive
    nb.nb1(P, C, 'permute')
    return C.finish()


def c16(tier):
    C = Check("C16", tier,
              explanation="Auxiliary key store decided structurally: the whole key API instantiates (API-1), write_key decides every rejection before "
              "any allocation or store (TS-1w), one reserved-keyword predicate is shared by write_key, both reader passes and countAuxKeywords and "
              "the passes skip the same cards (FS-4), the predicate covers the writer's own keys and the structural header keywords (FS-5), the "
              "length arithmetic cannot wrap (UW-3), and no raising element leaves a modified store unprotected (TS-2 on write_key / remove_key). "
              "Does not decide the map semantics over operation histories, nor that cfitsio preserves every accepted value byte for byte.",
              assumptions=["the structural keyword table in psv/rules/ax.py lists the cards cfitsio writes into a primary image header"])
    P = core.load(tier=tier, extra_units=selftest.UNITS)
    selftest.run(P, C, ('ts2',))
    ax.run(P, C)
    ts.ts2(P, C, only=("write_key", "remove_key"), rule_floor=2)
    cw.cw1(P, C, only=("splinetable_get_key", "splinetable_read_key", "splinetable_write_key"))
    C.extra["units"] = sorted(P.units.keys())
    # accepted entries survive serialisation: the writer appends them, it never searches-and-replaces by their names
    fs.fs9(P, C)
    # a value changes by installing a new string, never by writing into the stored one
    ax.km5(P, C)
    ax.km6(P, C)
    # a typed read denotes the stored string: nothing of an earlier read (stream state, scratch) is kept between calls
    selftest.run(P, C, ('re1',))
    dp.re1(P, C)
    ax.km7(P, C)
    return C.finish()


def c05(tier):
    C = Check("C05", tier,
              explanation="Memory-safety mechanisms of lookup and evaluation decided structurally on the instantiated kernels and entry points: "
              "knot padding allocated/released with agreeing affine forms at every site (KB-1), margin-shift loops bounded first and entered only "
              "from the boundary centres (KB-2), the SIMD lane cap dominates every lane store and core call with consistent constants (KB-3), "
              "variable-length arrays have positive extents (KB-6), and lookup rejects unordered (NaN) coordinates (SC-4). Does not decide index "
              "ranges inside the recurrences numerically (KB-5 not built) nor safety on tables that are not well-formed (C07).",
              assumptions=["tables are well-formed (C07): nknots >= 2*order+2, naxes = nknots-order-1", "centres come from searchcenters"])
    P = core.load(tier=tier, extra_units=selftest.UNITS)
    kb.kb1(P, C)
    kb.kb2(P, C)
    kb.kb2b(P, C)
    kb.kb2c(P, C)
    kb.kb3(P, C)
    n = kb.kb6(P, C)
    C.extra["index_sites"] = kb.kb5(P, C)
    kb.kb8(P, C)
    # 'trip no internal assertion': every assert on the evaluation path is one of the discharged kinds
    kb.as1(P, C)
    kb.as2(P, C)
    dp.cl10(P, C)
    kb.sc4(P, C)
    kb.sc5(P, C)
    # which core reads centers[D]/order[D]/strides[D] is decided by the dispatch table
    dp.dp(P, C)
    dp.dp(P, C, variant="driver-noevaltmpl")
    # ... and how far a known-order core walks is decided by its compile-time chunk count
    dp.dp7(P, C)
    # ... and each specialised core walks the coefficients exactly as the generic core does (the carry step runs between chunks, never after the last)
    dp.cl1(P, C)
    kb.sc123(P, C)      # the centre range (clamps, adjustment, search interval) is what keeps the coefficient walk in bounds
    C.extra["vla_declarators"] = n
    C.extra["units"] = sorted(P.units.keys())
    # no counting loop over an array of N entries runs to N inclusive
    nb.nb1(P, C, 'evaluation')
    return C.finish()


def c04(tier):
    C = Check("C04", tier,
              explanation="Centre lookup decided structurally: acceptance test equal to (first < x <= last) per dimension before any store, single "
              "failure and success exits (SC-1); clamp targets, last-interval adjustment and search interval (SC-2); zero-on-failure wiring of "
              "both call operators (SC-3). Does not decide termination of the binary search nor the bracket knot[c] <= x < knot[c+1] "
              "(loop invariants over runtime knots).",
              assumptions=["ordered (non-NaN) comparison semantics for SC-1; NaN is decided under C05 (SC-4)"])
    P = core.load(tier=tier, extra_units=selftest.UNITS)
    selftest.run(P, C, ('env1',))
    # comparisons mean what they say only while nobody switches the FPU to flush-to-zero / another rounding mode
    ed.env1(P, C)
    kb.sc123(P, C)
    # lookup touches the coordinates through comparisons only: no arithmetic on them can produce an index (inf - inf, NaN -> int)
    kb.sc4(P, C)
    # the centres are an output of the lookup: what the caller's array held before has no influence
    kb.sc5(P, C)
    # the call operator looks the centres up into a scratch array of its own: it must hold one centre per dimension
    kb.kb8(P, C)
    # lookup takes its acceptance limit and bisection bound from nknots[i] and knots[i]: the one operation of the library that moves these
    # per-dimension arrays (permuteDimensions) must move them together, or lookup on the permuted table reads past a knot vector
    pm.run(P, C)
    C.extra["units"] = sorted(P.units.keys())
    return C.finish()


def c03(tier):
    C = Check("C03", tier,
              explanation="Path independence decided structurally: every arm of the evaluator dispatch names the core its case labels require, "
              "both pointers definitely assigned, no fall-through, known-order guards and template lists identical, with and without "
              "PHOTOSPLINE_NO_EVAL_TEMPLATES (DP-1..4); constexpr chunk helpers evaluated by clang equal their products (DP-7); all 108 "
              "instantiated scalar/SIMD cores reduce to the generic core's phases under the substitutions that define them (CL-1); evaluator "
              "entry points are clones of the table's (CL-2); the C wrappers forward unchanged (CW-5). Does not decide bit identity under "
              "code generation (FMA contraction, vector vs scalar rounding), which is a property of the binary.",
              assumptions=["expression trees are compared; association order of floating-point operations is part of the tree"])
    P = core.load(tier=tier, extra_units=selftest.UNITS)
    dp.dp(P, C)
    dp.dp(P, C, variant="driver-noevaltmpl")
    dp.dp7(P, C)
    # the paths agree on every thread: none of them keeps scratch between calls
    selftest.run(P, C, ('re1',))
    dp.re1(P, C)
    n = dp.cl1(P, C)
    dp.cl2(P, C)
    # both call operators answer a rejected lookup with the same literal 0 (and nothing else precedes the lookup)
    kb.sc123(P, C)
    # each path selects its basis kernels from the selector alone (every bit of the mask, every derivative order)
    dp.cl4(P, C)
    cw.cw5(P, C)
    # the C interface asks the table on every path: it does not decide by itself which tables to evaluate
    cw.cw9(P, C)
    # the value path (bsplvb_simple), the derivative path and the gradient path (bspline_nonzero) must treat the margins alike
    kb.kb2(P, C)
    kb.kb2b(P, C)
    # bit-identity between paths presupposes one floating-point environment; every path refuses the same tables (lane cap)
    ed.env1(P, C)
    kb.kb3(P, C)
    C.extra["cores_compared"] = n
    C.extra["units"] = sorted(P.units.keys())
    return C.finish()


def c02(tier):
    C = Check("C02", tier,
              explanation="Derivative plumbing decided structurally: every basis kernel writes slot 0 of each output on every path (KB-4), the kernels "
              "agree on the order-0 special case value 1 / derivative 0 (CL-3), and every entry point selects the kernel from the derivative "
              "selector only and passes knots/nknots/x/centre/order of the same dimension, with the gradient lanes wired value/derivative/value "
              "(CL-4). Does not decide numerical equality of any derivative.",
              assumptions=["bspline_deriv (recursive reference) is taken as the definition for derivative orders >= 2"])
    P = core.load(tier=tier, extra_units=selftest.UNITS)
    kb.kb4(P, C)
    # derivatives in the margins use the same re-indexing as values: both margins must be reachable for every admitted table
    kb.kb2b(P, C)
    kb.kb2c(P, C)
    kb.kb7(P, C)
    dp.cl3(P, C)
    dp.cl4(P, C)
    dp.cl6(P, C)
    dp.cl8(P, C)
    dp.cl9(P, C)
    # the evaluator's entry points are clones of the table's (same scratch precision, same kernels)
    dp.cl2(P, C)
    # the evaluator's derivative and gradient entry points reach the cores through the dispatch table
    dp.dp(P, C)
    dp.dp(P, C, variant="driver-noevaltmpl")
    C.extra["units"] = sorted(P.units.keys())
    return C.finish()


def c10(tier):
    C = Check("C10", tier,
              explanation="Monotonic fit decided structurally as 'non-decreasing coefficients along the monotonic dimension': the monotonic branch "
              "solves with the non-negative solver and copies only its result (SG-1); every store into the solver's result vector is 0, a guarded "
              "copy of a sign-checked solution, or a clamped trial value (SG-2); the prefix sum back to B-spline coefficients has the row-major "
              "affine index forms and nothing writes the output afterwards (SG-3); the lower-triangular change of basis is applied to basis and "
              "penalty of the same dimension (SG-4). With non-negative increments and monotone rounding of += this gives non-decreasing "
              "coefficients, hence (B-spline property, assumed theorem) a non-decreasing surface. Does not decide the second sentence of the "
              "property (inactive constraint gives the same coefficients) nor non-finite data.",
              assumptions=["B-splines with non-decreasing coefficients are non-decreasing (variation-diminishing property)",
                           "IEEE float addition is monotone; the copy double->float rounds monotonically",
                           "NaN data are out of scope (a NaN trial value is not clamped)"])
    P = core.load(tier=tier, extra_units=selftest.UNITS)
    selftest.run(P, C, ('sp',))
    sg.run_mono(P, C)
    sg.run_sign(P, C)
    # the constrained solver gets the system exactly as assembled (it manages the symmetric/full views of the matrix itself)
    gw.gw5(P, C)
    sp.so1(P, C)
    sp.so2(P, C)
    # "for any data": the solver's factor bookkeeping must not read moved or released CHOLMOD arrays on any path
    sp.sp1(P, C, floor=3)
    sp.sp2(P, C)
    C.extra["units"] = sorted(P.units.keys())
    sp.sp3(P, C)
    sp.sp5(P, C)
    # the row that leaves / enters the factor is the coefficient that changes sets; a sub-factor copied by position is analysed with the
    # permutation that was handed in
    sp.sp6(P, C)
    sp.sp7(P, C)
    # entries of the normal matrix are dropped only below machine epsilon; the right-hand side has a value in every entry
    sp.sp8(P, C)
    sg.sg10(P, C)
    sg.sg11(P, C)
    gw.gw9(P, C)
    # clause 2 (inactive constraint returns the unconstrained fit) needs the solver to run to its optimum
    sg.sg7(P, C)
    sp.mm1(P, C)
    # the monotonic fit forms F and R through the same slicemultiply / flatten index arithmetic
    gw.iw1(P, C)
    ge.ge9(P, C)
    return C.finish()


def c11(tier):
    C = Check("C11", tier,
              explanation="Only the clause 'component-wise non-negative exactly, for the solver used by fitting' is decided, by sign provenance of "
              "every store into nnls_normal_block3's result (SG-2), plus a memory-safety clause of the factor-update path it is anchored in: cached CHOLMOD "
              "array pointers are not read after a call that may move them (SP-1) and no field is read through a released object (SP-2). KKT optimality, agreement with the unique minimiser, termination of the inner "
              "loop and everything about the three other exported solvers are numerical and are NOT decided.",
              assumptions=["NaN data are out of scope"])
    P = core.load(tier=tier, extra_units=selftest.UNITS)
    selftest.run(P, C, ('sp',))
    sg.run_sign(P, C)
    # the anchor `if (nH2 == 0) break`: convergence is declared only at an exact solve with nothing pending
    sg.sg5(P, C)
    sg.sg7(P, C)
    sg.sg8(P, C)
    sp.so1(P, C)
    sp.so2(P, C)
    # the constrained set handed back to the solver is one job's list of clipped coordinates, not several jobs' concatenated
    mt.mt9(P, C)
    # anchored in modify_factor / recompute_factor: the factor-update path must not read moved or released CHOLMOD arrays
    sp.sp1(P, C, floor=3)
    sp.sp2(P, C)
    # 'terminates': the one structural part — no trial step length 0 besides the reference
    sg.ls1(P, C)
    # the pending-set bookkeeping moves whole elements
    sp.mm1(P, C)
    C.extra["units"] = sorted(P.units.keys())
    C.extra["not_decided"] = ["KKT conditions", "termination", "nnls_lawson_hanson", "nnls_normal_block", "nnls_normal_block_updown"]
    sp.sp3(P, C)
    sp.sp4(P, C)
    sp.sp5(P, C)
    sp.sp6(P, C)
    sp.sp7(P, C)
    sp.sp8(P, C)
    sg.sg10(P, C)
    sg.sg11(P, C)
    # 'terminates and returns the optimum': leaving the outer loop on the iteration cap is not convergence
    sg.sg9(P, C)
    return C.finish()


def c14(tier):
    C = Check("C14", tier,
              explanation="Two structural clauses of convolution: the normalisation helper factorial is total on the arguments convolve passes, 0 "
              "included, and has the canonical product loop (UW-1); convolve updates exactly the convolved dimension's order, knot count and "
              "coefficient count to order+n-1, nknots*n and nknots'-order'-1, recomputes strides, and touches no other dimension's shape "
              "(UW-2); a failing convolve cannot leave a modified unprotected table (TS-2). The integral identity itself (blossoming, divided "
              "differences, sign of the normalisation) is numerical and is NOT decided.",
              assumptions=["admitted range: order <= 5 in the convolved dimension, kernels of 2..6 knots, so (k+q-1)! <= 10!"])
    P = core.load(tier=tier, extra_units=selftest.UNITS)
    selftest.run(P, C, ('ts2',))
    uw.uw1(P, C)
    uw.uw2(P, C)
    uw.uw4(P, C)
    uw.uw5(P, C)
    uw.uw6(P, C)
    uw.uw7(P, C)
    uw.uw8(P, C)
    uw.uw9(P, C)
    uw.vg4(P, C)
    ts.ts2(P, C, only=("convolve",), rule_floor=1)
    cw.cw1(P, C, only=("splinetable_convolve",))
    C.extra["units"] = sorted(P.units.keys())
    C.extra["not_decided"] = ["convolution integral identity", "convoluted_blossom / divdiff numerics"]
    # the transfer matrix is multiplied INTO the scratch array: it starts from zero
    uw.uw10(P, C)
    # 'the result is a well-formed table': strides of the convolved shape
    st.st1(P, C, only=('convolve',))
    # 'all other dimensions are unchanged': the new knot field goes into the convolved dimension only
    uw.uw11(P, C)
    # the operation is a function of its arguments and the table: no scratch kept between calls (two threads, two tables)
    selftest.run(P, C, ('re1',))
    dp.re1(P, C)
    # no counting loop over an array of N entries runs to N inclusive
    nb.nb1(P, C, 'convolve')
    return C.finish()


def c19(tier):
    C = Check("C19", tier,
              explanation="Size-model agreement decided structurally: every allocation the reader makes through the allocator has an estimateMemory "
              "term with the same element size and affine count, dimension-wise terms inside the per-dimension loop, each term used once; "
              "auxiliary entries are covered by the per-key bound under the card-length lemma (SM-1); the model's convolution adjustments equal "
              "the shape convolve produces (SM-2); convolve releases before it allocates and uses the allocator only for members (SM-3); owned "
              "members only ever receive allocator memory (TS-3a). Does not decide allocator overhead/alignment (the property counts requested "
              "bytes) nor files that are not well-formed.",
              assumptions=["card-length lemma: for any header card cfitsio returns, strlen(key)+1 + strlen(value)+1 <= 82",
                           "the table read by the constructor and the one measured by estimateMemory are the same file"])
    P = core.load(tier=tier, extra_units=selftest.UNITS)
    na, nt = sm.sm1(P, C)
    sm.sm2(P, C)
    sm.sm3(P, C)
    sm.sm4(P, C)
    sm.sm8(P, C)
    sm.sm6(P, C)
    sm.sm7(P, C)
    # 'for any table file': a file that is no table, or a declaration that does not fit it, is refused, not indexed with
    sm.vg5(P, C)
    # the size model counts the auxiliary keys with the reader's own filter and the reader's own way of reading cards
    ax.fs4(P, C)
    # the model reads the per-dimension orders through readOrder: ORDERn must land in order[n] there as in the reader
    fs.fs8(P, C)
    n = sm.ts3a(P, C)
    C.extra["reader_allocation_sites"] = na
    C.extra["model_terms"] = nt
    C.extra["owned_pointer_stores"] = n
    C.extra["units"] = sorted(P.units.keys())
    # every request goes through two helpers: they ask the allocator for exactly what the model counts
    sm.sm9(P, C)
    # the per-key budget bounds what the reader stores only for strings taken from fixed buffers
    sm.sm10(P, C)
    return C.finish()


def c06(tier):
    C = Check("C06", tier,
              explanation="Round-trip structure decided as schema agreement: the writer's sequence of HDUs, keys, name patterns and axis order "
              "(extracted from the resolved cfitsio calls of write_fits_core) matches the documented layout and everything the reader, readOrder "
              "and estimateMemory look up (FS-1); every transfer's datatype code matches the buffer element type, writer and reader agree per "
              "item, BITPIX matches the element type (FS-2); reads substitute no special values (FS-3); the reserved-key filter is shared "
              "(FS-4). Does not decide bit-exactness of cfitsio's conversions, decoding of the shipped reference files, or independent readers.",
              assumptions=["cfitsio implements the FITS standard for the calls used"])
    P = core.load(tier=tier, extra_units=selftest.UNITS)
    fs.run(P, C)
    fs.fs6(P, C)
    fs.fs7(P, C)
    fs.fs8(P, C)
    fs.fs10(P, C)
    # what the writer writes the reader must accept: the validations may not be stricter than well-formedness
    vg.vg2(P, C, exact=True)
    fs.fs12(P, C)
    kb.kb8(P, C)
    # legacy files (no EXTENTS / PERIOD): a failed HDU move must keep its status until tested
    sm.sm6(P, C)
    # auxiliary values survive the round trip only if write_key refuses what a card cannot hold
    ax.ks1(P, C)
    ax.ks2(P, C)
    ax.uw3(P, C)
    ax.km2(P, C)
    ax.fs5b(P, C)
    ax.fs4(P, C)
    C.extra["units"] = sorted(P.units.keys())
    fs.fs9(P, C)
    # what the pixel reads stored is what the table holds
    fs.fs13(P, C)
    # the layout names the extensions, it does not order them
    sm.fs14(P, C)
    # the strides the reader reconstructs are the row-major suffix products of the axes it installs
    st.st1(P, C, only=('read_fits_core',))
    # ... and what the writer writes the reader accepts: no operation hands the writer a dimension with fewer than order+1 coefficients
    vg.vg6(P, C)
    # legacy files without PERIODn keys: period 0, not what the allocation held
    fs.fs15(P, C)
    return C.finish()


def c17(tier):
    C = Check("C17", tier,
              explanation="One structural clause of grid evaluation: the wiring. The coefficient array becomes a sparse n-tuple by row-major decomposition "
              "with the table's strides, with exactly the non-zero coefficients and the axis lengths as ranges (GE-1); every dimension's own "
              "knots, knot count, order and coordinate vector feed bsplinebasis and the product is applied along that same dimension (GE-2); "
              "bsplinebasis fills basis(row, col) = bspline(knots, x[row], col, order) column-major and its private bspline() is a clone of "
              "the library's reference (GE-3); the C wrapper forwards and transfers ownership once (CW-4/CW-5). Numerical agreement with "
              "pointwise evaluation (two different algorithms, CHOLMOD products) is NOT decided.",
              assumptions=["slicemultiply computes the mode-i product (its internals are index arithmetic over runtime shapes, not analysed)"])
    P = core.load(tier=tier, extra_units=selftest.UNITS)
    ge.run(P, C)
    ge.ge4(P, C)
    # a slice multiplication that failed is not silently skipped (the array would not be the grid)
    ed.ed4(P, C)
    cw.cw1(P, C, only=("splinetable_grideval",))
    cw.cw2(P, C, only=("splinetable_grideval",))
    C.extra["units"] = sorted(P.units.keys())
    C.extra["not_decided"] = ["numerical agreement with pointwise evaluation", "slicemultiply index arithmetic"]
    ge.ge5(P, C)
    ge.ge6(P, C)
    ge.ge7(P, C)
    ge.ge8(P, C)
    # the C wrapper defines *result on every exit (a caller re-using its variable must not see a stale grid)
    cw.cw8(P, C)
    ge.ge9(P, C)
    # the sparse result holds each entry's value and whole index tuple in one slot
    ge.ge10(P, C)
    # the operation is a function of its arguments and the table: no scratch kept between calls (two threads, two tables)
    selftest.run(P, C, ('re1',))
    dp.re1(P, C)
    # no counting loop over an array of N entries runs to N inclusive
    nb.nb1(P, C, 'grideval')
    return C.finish()


def c09(tier):
    C = Check("C09", tier,
              explanation="Only the wiring of the penalised least-squares system is decided (one structural clause): which smoothing strength, "
              "penalty order, spline order and knot vector build each dimension's penalty (GW-1..3), that the penalty is the scaled sum over all "
              "dimensions of Kronecker-extended D'D blocks of the divided-difference matrix with the right shape (GW-3), that F is built from the "
              "weights and R from weights*data with dimension i's own basis applied along dimension i, that the solved system is (F + penalty) c = R "
              "by the Cholesky route when no monotonic dimension is requested, and that every coefficient is copied out (GW-4). What box(), "
              "slicemultiply(), kronecker_product(), divided_diffs() and the sparse solve compute — i.e. that the result is the minimiser — is "
              "numerical and is NOT decided.",
              assumptions=["box, slicemultiply, kronecker_product, divided_diffs, cholesky_solve compute what their names say (not analysed)",
                           "CHOLMOD's add/ssmult/transpose/speye follow their documentation"])
    P = core.load(tier=tier, extra_units=selftest.UNITS)
    gw.run(P, C)
    # the data term: the basis matrix of each dimension (GW-4 treats bsplinebasis as given)
    ge.ge3(P, C)
    gw.iw1(P, C)
    ge.gw8(P, C)
    ge.ge7(P, C)
    # the right-hand side handed to the solver has a value in every entry (a spline without data under it: zero)
    gw.gw9(P, C)
    C.extra["units"] = sorted(P.units.keys())
    C.extra["not_decided"] = ["optimality", "polynomial reproduction", "index arithmetic of box/slicemultiply/kronecker_product", "divided_diffs formula"]
    st.st1(P, C, only=('fit',))
    # the mode products un-flatten the column number with the axis order they flattened it with (three and more dimensions)
    ge.ge9(P, C)
    # the data handed to the fit holds each entry's value and whole index tuple in one slot
    ge.ge10(P, C)
    return C.finish()


def c01(tier):
    C = Check("C01", tier,
              explanation="The identity 'value = sum of coefficient times product of Cox-de Boor basis functions' is numerical and is NOT decided. "
              "Decided are its structural prerequisites, each a necessary condition of the statement: the margin re-indexing of the local basis "
              "is bounded and entered from the boundary centres (KB-2) and BOTH margins are reachable for every admitted knot-vector length, in "
              "particular the shortest one, nknots = 2*order+2, where the two boundary centres coincide (KB-2b); every kernel writes slot 0 of "
              "its outputs on every path (KB-4); the centre handed to the kernels brackets the point, with the clamp and last-interval "
              "conventions of the statement (SC-1..3); every entry point passes the knots, count, coordinate, centre and order of the same "
              "dimension to the kernel (CL-4); every optimised core is the generic core under its defining substitutions (CL-1) and the "
              "dispatch table selects the core its labels require (DP).",
              assumptions=["bsplvb/bsplvb_simple implement the de Boor recurrence (numerical, not analysed)",
                           "tables are well-formed (C07)"])
    P = core.load(tier=tier, extra_units=selftest.UNITS)
    kb.kb2(P, C)
    kb.kb2b(P, C)
    kb.kb2c(P, C)
    kb.kb4(P, C)
    kb.sc123(P, C)
    # the local-basis outer product is walked with scratch arrays on the stack: they must hold any dimension count
    kb.kb8(P, C)
    dp.cl4(P, C)
    dp.cl1(P, C)
    dp.dp(P, C)
    # 'both precisions': the double instantiations keep every intermediate in double
    selftest.run(P, C, ('pr1', 're1'))
    dp.pr1(P, C)
    # 'for every point': also when several threads evaluate at once — no scratch shared between calls
    dp.re1(P, C)
    C.extra["units"] = sorted(P.units.keys())
    C.extra["not_decided"] = ["the de Boor recurrence itself", "rounding", "the coefficient walk's index arithmetic beyond clone agreement"]
    return C.finish()


TABLE = {"C01": c01, "C09": c09, "C17": c17, "C06": c06, "C19": c19, "C14": c14, "C10": c10, "C11": c11, "C03": c03, "C02": c02, "C05": c05, "C04": c04, "C16": c16, "C15": c15, "C18": c18, "C08": c08, "C12": c12, "C20": c20, "C13": c13, "C07": c07}


def run(prop, tier):
    if prop not in TABLE:
        print("property %s is not claimed by this framework (see MANIFEST.not_applicable)" % prop)
        return 2
    return TABLE[prop](tier)
