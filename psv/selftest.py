"""Positive examples for the generic engines: run on every check; an engine that does not flag its example is broken."""
import os

from . import core
from .rules import ed, ts, mt, nl, sp

UNITS = {
    "selftest-cpp": (os.path.join(core.VERIF, "selftest", "positives.cpp"), "c++", ()),
    "selftest-c": (os.path.join(core.VERIF, "selftest", "positives.c"), "c", ()),
}


class Collector:
    def __init__(self):
        self.obs = []
        self.extra = {}

    def rule(self, *a, **k):
        pass

    def ob(self, rule, function, symbol, ok, where, detail="", path=None):
        self.obs.append((rule, function, symbol, ok))
        return ok


def run(P, C, engines):
    """engines: subset of {'cw1','ed1','ts2','mt'}; P must have been loaded with extra_units=UNITS."""
    mtset = P.maythrow()
    if "cw1" in engines:
        f = P.one("st_cw1_escape")
        g = P.one("st_cw1_contained")
        bad = [i for i in f.walk() if P.node_may_throw(f, i, mtset) and not P.contained(f, i, mtset)]
        good = [i for i in g.walk() if P.node_may_throw(g, i, mtset) and not P.contained(g, i, mtset)]
        C.selftest("CW-1", bool(bad) and not good, "st_cw1_escape flagged, st_cw1_contained silent")
    if "ed1" in engines:
        col = Collector()
        ed.analyse_function(P, col, P.one("st_ed1_dropped"), "st_ed1_dropped", require_close=False)
        ed.analyse_function(P, col, P.one("st_ed1_checked"), "st_ed1_checked", require_close=False)
        d = [o for o in col.obs if o[0] == "ED-1" and o[1] == "st_ed1_dropped"]
        k = [o for o in col.obs if o[0] == "ED-1" and o[1] == "st_ed1_checked"]
        C.selftest("ED-1", bool(d) and not d[0][3] and bool(k) and k[0][3], "dropped status flagged, checked status silent")
    if "ts2" in engines:
        fs = {f.name: f for f in P.functions.values() if f.unit == "selftest-cpp" and f.name.startswith("st_ts2")}
        vb = ts.Window(P, fs["st_ts2_unprotected"]).run()
        vg_ = ts.Window(P, fs["st_ts2_protected"]).run()
        C.selftest("TS-2", any(v[1] == "TS-2" for v in vb) and not any(v[1] == "TS-2" for v in vg_), "unprotected mutator flagged, protected twin silent")
    if "mt" in engines:
        def waits(name):
            f = P.one(name)
            ev = mt.Flow(f, False, {}).run()
            return [(k, st) for (k, i, st, fld, b) in ev if k == "wait"]
        bw = waits("st_mt2_blind_wait")
        gw = waits("st_mt2_guarded_wait")
        C.selftest("MT-2", bool(bw) and any(not (s[0] and s[1]) for _k, s in bw) and bool(gw) and all(s[0] and s[1] for _k, s in gw),
                   "blind wait flagged, guarded wait silent")
        f = P.one("st_mt13_racy_store")
        ev = mt.Flow(f, False, {}).run()
        st = [s for (k, i, s, fld, b) in ev if k == "store" and fld == "state"]
        C.selftest("MT-1", bool(st) and not st[0][0], "store to state without the mutex flagged")
    if "nl1" in engines:
        fs = {f.name: f for f in P.functions.values() if f.unit == "selftest-cpp" and f.name.startswith("st_nl1")}
        b = nl.site_verdicts(fs["st_nl1_blind"], ())
        g = nl.site_verdicts(fs["st_nl1_tested"], ())
        C.selftest("NL-1", any(a["bad"] for a in b.values()) and bool(g) and not any(a["bad"] for a in g.values()),
                   "blind dereference of a nullable array flagged, tested twin silent")
    if "sp" in engines:
        _c, _i, bad = sp.analyse(P.one("st_sp1_stale"))
        _c2, _i2, good = sp.analyse(P.one("st_sp1_reloaded"))
        C.selftest("SP-1", bool(bad) and bool(_c2) and not good, "stale read of a cached factor array flagged, reloaded twin silent")
        nf, rel = sp.freed_derefs(P.one("st_sp2_released"))
        C.selftest("SP-2", nf == 1 and bool(rel), "field read through a released object flagged")
    if "env1" in engines:
        from .rules import ed as _ed
        f = P.one("st_env1_ftz")
        hit = any(cal and (cal["name"] in _ed.FPENV_CALLS or (f.call_macro(i) or "") in _ed.FPENV_CALLS) for i, cal in f.calls())
        C.selftest("ENV-1", hit, "a write of MXCSR is recognised")
    if "pr1" in engines:
        from .rules import dp as _dp
        fs = {f.name: f for f in P.functions.values() if f.unit == "selftest-cpp" and f.name.startswith("st_pr1")}
        C.selftest("PR-1", bool(_dp.narrowings(fs["st_pr1_narrow"])) and not _dp.narrowings(fs["st_pr1_clean"]),
                   "float accumulator in a double instantiation flagged, widening of a stored float silent")
    if "re1" in engines:
        from .rules import dp as _dp
        fs = {f.name: f for f in P.functions.values() if f.unit == "selftest-cpp" and f.name.startswith("st_re1")}
        C.selftest("RE-1", bool(_dp.hidden_state(fs["st_re1_static"])) and not _dp.hidden_state(fs["st_re1_clean"]),
                   "scratch vector in a static local flagged, static const silent")
