"""psv.report — obligations, violations, known findings, evidence files, exit codes."""
import json
import os
import sys
import time

from . import core

KNOWN_PATH = os.path.join(core.VERIF, "known_findings.json")


def load_known():
    try:
        with open(KNOWN_PATH) as fh:
            return json.load(fh)["findings"]
    except FileNotFoundError:
        return []


class Check:
    """One run of the rules serving one property."""

    def __init__(self, prop, tier="quick", explanation="", assumptions=None):
        self.prop = prop
        self.tier = tier
        self.t0 = time.time()
        self.obligations = []   # dicts: rule, instance, ok, where, detail
        self.explanation = explanation
        self.assumptions = list(assumptions or [])
        self.rules = {}         # rule id -> text
        self.floors = {}        # rule id -> minimum instance count
        self.extra = {}
        self.notes = []
        try:
            self.seed = int(os.environ.get("VERIF_SEED", "0"))
        except ValueError:
            self.seed = 0

    def rule(self, rid, text, floor=1):
        self.rules[rid] = text
        self.floors[rid] = floor

    def ob(self, rule, function, symbol, ok, where, detail="", path=None):
        """record one obligation.  (rule, function, symbol) is the stable identity."""
        self.obligations.append(dict(rule=rule, function=function, symbol=str(symbol), ok=bool(ok),
                                     where=where, detail=detail, path=path))
        return ok

    def selftest(self, rule, fired, what):
        """a rule must flag its positive example; otherwise the analysis is broken."""
        if not fired:
            raise core.AnalysisBroken("self-test: rule %s did not flag its positive example (%s)" % (rule, what))
        self.extra.setdefault("selftests", []).append({"rule": rule, "example": what, "flagged": True})

    def thorough(self):
        """thorough tier: kill matrix of the property's own mutants (each applied to a scratch copy of the tree, never to /repo)."""
        from . import mutants
        km = mutants.run_mutants(self.prop)
        self.extra["mutants"] = km
        self.extra["mutants_killed"] = sum(1 for m in km if m["status"].startswith("killed"))
        self.extra["mutants_survived"] = [m["id"] for m in km if m["status"] == "SURVIVED"]
        self.extra["mutants_stale"] = [m["id"] for m in km if m["status"] in ("stale", "analysis-broken")]
        for m in km:
            print("mutant %-28s %-6s %s" % (m["id"], m["rule"], m["status"]))

    def finish(self):
        if self.tier == "thorough" and not os.environ.get("PSV_NO_MUTANTS"):
            self.thorough()
        # floors
        counts = {}
        for o in self.obligations:
            counts[o["rule"]] = counts.get(o["rule"], 0) + 1
        has_viol = set(o["rule"] for o in self.obligations if not o["ok"])
        broken = list(core.BROKEN)
        for rid, fl in self.floors.items():
            # a rule that already reports a violation is not vacuous: report the violation rather than the shortfall
            if counts.get(rid, 0) < fl and rid not in has_viol:
                broken.append("rule %s matched %d instances, floor is %d (anchor moved or rule lost its target)" % (rid, counts.get(rid, 0), fl))
        if broken and not has_viol:
            raise core.AnalysisBroken("; ".join(broken[:4]))
        for b in broken:
            # rules that did run report violations on this tree: those are what the check says; the rules that could not be applied are listed
            print("NOT-APPLIED: %s" % b)
        self.extra["rules_not_applied"] = broken
        known = [k for k in load_known() if k["property"] == self.prop]
        viol = [o for o in self.obligations if not o["ok"]]
        # dedupe by identity
        seen = set()
        uniq = []
        for v in viol:
            key = (v["rule"], v["function"], v["symbol"])
            if key in seen:
                continue
            seen.add(key)
            uniq.append(v)
        new = []
        knownhits = []
        for v in uniq:
            hit = None
            for k in known:
                if k.get("status", "known") != "known":
                    continue
                if k["rule"] == v["rule"] and k["function"] == v["function"] and k["symbol"] == v["symbol"]:
                    hit = k
                    break
            if hit:
                knownhits.append((v, hit))
            else:
                new.append(v)
        evdir = os.environ.get("PSV_EVIDENCE_DIR") or os.path.join(core.VERIF, "evidence")
        os.makedirs(os.path.join(evdir, "replay"), exist_ok=True)
        # clear old replays of this property
        rdir = os.path.join(evdir, "replay")
        for fn in os.listdir(rdir):
            if fn.startswith(self.prop + "-"):
                os.remove(os.path.join(rdir, fn))
        for v, k in knownhits:
            print("KNOWN-FINDING: property=%s %s %s in %s [%s] at %s — %s" %
                  (self.prop, v["rule"], v["symbol"], v["function"], k.get("id", ""), v["where"], k.get("what", v["detail"])))
        for n, v in enumerate(new):
            rp = os.path.join(rdir, "%s-%d.json" % (self.prop, n))
            with open(rp, "w") as fh:
                json.dump(dict(property=self.prop, rule=v["rule"], rule_text=self.rules.get(v["rule"], ""),
                               function=v["function"], symbol=v["symbol"], where=v["where"],
                               detail=v["detail"], path=v.get("path"), repo=core.REPO), fh, indent=1)
            print("%s: %s [%s] %s: %s" % (v["where"], v["rule"], v["function"], v["symbol"], v["detail"]))
            print("VIOLATION property=%s replay=%s" % (self.prop, rp))
        ok_n = sum(1 for o in self.obligations if o["ok"])
        distinct = len(set((o["rule"], o["function"], o["symbol"]) for o in self.obligations))
        samples = []
        per_rule = {}
        for o in self.obligations:
            per_rule.setdefault(o["rule"], []).append(o)
        for rid, obs in per_rule.items():
            for o in obs[:3]:
                samples.append({"rule": rid, "function": o["function"], "instance": o["symbol"],
                                "where": o["where"], "discharged": o["ok"], "detail": o["detail"][:300]})
        cov = dict(
            explanation=self.explanation,
            obligations=len(self.obligations),
            discharged=ok_n,
            evaluations=len(self.obligations),
            distinct_nontrivial=distinct,
            rule="one obligation per (rule, function, instance) found by the rule in /repo's current sources; "
                 "distinct = distinct identities; trivial obligations are not generated",
            rules={rid: {"text": txt, "instances": counts.get(rid, 0), "floor": self.floors.get(rid, 0)}
                   for rid, txt in self.rules.items()},
            samples=samples,
            known_findings_present=[{"rule": v["rule"], "function": v["function"], "symbol": v["symbol"]} for v, _ in knownhits],
            checker_cmd="./check %s --tier %s" % (self.prop, self.tier),
            trusted_base=["clang 14 front end (AST, CFG, constant evaluator)", "psx extractor", "rule tables in /verif/psv"],
            exhaustive=True,
        )
        cov.update(self.extra)
        ev = dict(property_id=self.prop, tier=self.tier, seed=self.seed, level="other", coverage=cov,
                  assumptions=self.assumptions, wall_s=round(time.time() - self.t0, 3),
                  violations=len(new))
        with open(os.path.join(evdir, "%s.json" % self.prop), "w") as fh:
            json.dump(ev, fh, indent=1)
        print("%s: %d obligations, %d discharged, %d known finding(s), %d new violation(s) [%s, %.1fs]" %
              (self.prop, len(self.obligations), ok_n, len(knownhits), len(new), self.tier, time.time() - self.t0))
        return 1 if new else 0
