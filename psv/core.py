"""psv.core — loader, program model, CFG utilities and effect summaries.

Everything here works on the JSON written by bin/psx (the libTooling
extractor).  Nothing of /repo is executed.
"""
import glob
import hashlib
import json
import re
import os
import shutil
import subprocess
import sys
import tempfile
import time
from concurrent.futures import ThreadPoolExecutor

VERIF = os.path.dirname(os.path.dirname(os.path.abspath(__file__)))
REPO = os.environ.get("PSV_REPO", "/repo")
PSX = os.environ.get("PSV_PSX") or os.path.join(VERIF, "bin", "psx")


BROKEN = []          # rules of the current run that could not be applied (anchor vanished, shape not identified): see report.Check.finish


class AnalysisBroken(Exception):
    """The analysis itself cannot run or lost an anchor: exit code 2."""


# --------------------------------------------------------------------------
# units
# --------------------------------------------------------------------------
def _resource_dir():
    try:
        return subprocess.check_output(["clang", "-print-resource-dir"], text=True).strip()
    except Exception:
        return "/usr/lib/llvm-14/lib/clang/14.0.6"


def cxx_flags(repo, extra=()):
    return ["-x", "c++", "-std=gnu++11", "-DPHOTOSPLINE_INCLUDES_SPGLAM",
            "-DPHOTOSPLINE_VERSION=2.1.0", "-I%s/include" % repo,
            "-I/usr/include/suitesparse", "-UNDEBUG", "-msse2", "-msse3", "-msse4",
            "-mno-avx", "-Wno-everything"] + list(extra)


def c_flags(repo, extra=()):
    return ["-x", "c", "-std=gnu99", "-I%s/include" % repo,
            "-I/usr/include/suitesparse", "-UNDEBUG", "-Wno-everything"] + list(extra)


# name -> (path relative to repo or absolute, language, extra flags, tier)
def unit_table(repo):
    t = {}
    for f in ("bspline", "bspline_multi", "convolve", "fitsio"):
        t["core/" + f] = ("src/core/%s.cpp" % f, "c++", (), "quick")
    t["cinter"] = ("src/cinter/splinetable.cpp", "c++", (), "quick")
    for f in ("cholesky_solve", "glam", "nnls", "splineutil"):
        t["fitter/" + f] = ("src/fitter/%s.c" % f, "c", (), "quick")
    t["tools/eval"] = ("src/tools/eval.cpp", "c++", (), "quick")
    for f in ("inspect", "gen_test_splines"):
        t["tools/" + f] = ("src/tools/%s.cpp" % f, "c++", (), "thorough")
    t["tools/bench"] = ("src/tools/bench.cpp", "c++", ("-DPHOTOSPLINE_NO_EVAL_TEMPLATES",), "thorough")
    for f in ("test_main", "test_fitsio", "test_eval", "test_operators"):
        t["test/" + f] = ("test/%s.cpp" % f, "c++", ("-DPHOTOSPLINE_NO_EVAL_TEMPLATES",), "thorough")
    t["test/test_fit"] = ("test/test_fit.cpp", "c++", (), "thorough")
    t["python"] = ("src/python/photosplinemodule.cpp", "c++",
                   ("-I/usr/include/python3.11", "-I/opt/veriftools/pyvenv/lib/python3.11/site-packages/numpy/_core/include"), "thorough")
    t["driver"] = (os.path.join(VERIF, "tu", "api_instances.cpp"), "c++", (), "quick")
    t["driver-noevaltmpl"] = (os.path.join(VERIF, "tu", "api_instances.cpp"), "c++",
                              ("-DPHOTOSPLINE_NO_EVAL_TEMPLATES",), "quick")
    return t


# source files that are knowingly outside the analysed build, one reason each
UNCOVERED_OK = {
}


def coverage_check(repo):
    """Every source file of the working tree must be a unit (or a listed exception)."""
    have = set(v[0] for v in unit_table(repo).values())
    missing = []
    for pat in ("src/**/*.c", "src/**/*.cpp", "test/*.cpp"):
        for p in glob.glob(os.path.join(repo, pat), recursive=True):
            rel = os.path.relpath(p, repo)
            if rel not in have and rel not in UNCOVERED_OK:
                missing.append(rel)
    if missing:
        raise AnalysisBroken("source files not covered by any analysis unit: %s" % ", ".join(sorted(missing)))


def _tree_hash(repo, extra_dirs):
    h = hashlib.sha256()
    files = []
    for d in ("include", "src", "test"):
        for root, _, fs in os.walk(os.path.join(repo, d)):
            for f in fs:
                if f.endswith((".h", ".c", ".cpp", ".hpp")):
                    files.append(os.path.join(root, f))
    for d in extra_dirs:
        for root, _, fs in os.walk(d):
            for f in fs:
                files.append(os.path.join(root, f))
    files.append(PSX)
    for p in sorted(files):
        h.update(p.encode())
        try:
            with open(p, "rb") as fh:
                h.update(fh.read())
        except OSError:
            pass
    return h.hexdigest()[:24]


def extract(units, repo=None, extra_units=None, tier="quick"):
    """Run psx on the named units (parallel).  Returns dict name -> json dict.

    extra_units: dict name -> (abs path, lang, extra flags) for self-tests.
    Results are cached by a hash over every analysed source file + psx itself,
    so a changed working tree is always re-extracted.
    """
    repo = repo or REPO
    if not os.path.exists(PSX):
        raise AnalysisBroken("extractor %s missing: run MANIFEST.setup_cmd" % PSX)
    table = unit_table(repo)
    todo = {}
    for u in units:
        if u not in table:
            raise AnalysisBroken("unknown unit " + u)
        path, lang, extra, _ = table[u]
        if not os.path.isabs(path):
            path = os.path.join(repo, path)
        if not os.path.exists(path):
            raise AnalysisBroken("unit source vanished: " + path)
        todo[u] = (path, lang, extra)
    for u, v in (extra_units or {}).items():
        todo[u] = v
    key = _tree_hash(repo, [os.path.join(VERIF, "tu"), os.path.join(VERIF, "selftest")])
    cache_root = os.environ.get("PSV_CACHE_DIR") or os.path.join(VERIF, ".cache")
    cache = os.path.join(cache_root, key + "-" + hashlib.sha256(repo.encode()).hexdigest()[:8])
    os.makedirs(cache, exist_ok=True)
    try:
        os.utime(cache, None)
    except OSError:
        pass
    # prune old caches: keep the 6 most recently used, and never remove one used in the last half hour (a concurrent run may be reading it)
    try:
        root = cache_root
        now = time.time()
        olds = sorted((os.path.getmtime(os.path.join(root, d)), d) for d in os.listdir(root))
        for mt_, d in olds[:-6]:
            if now - mt_ > 1800:
                shutil.rmtree(os.path.join(root, d), ignore_errors=True)
    except OSError:
        pass
    rdir = _resource_dir()
    roots = "%s:%s" % (repo, VERIF)

    def run(item):
        name, (path, lang, extra) = item
        out = os.path.join(cache, name.replace("/", "_") + ".json")
        err = out + ".err"
        if not os.path.exists(out):
            flags = (cxx_flags(repo, extra) if lang == "c++" else c_flags(repo, extra)) + ["-resource-dir", rdir]
            tmp = out + ".tmp%d" % os.getpid()
            p = subprocess.run([PSX, tmp, path, "--"] + flags, capture_output=True, text=True,
                               env=dict(os.environ, PSX_ROOTS=roots))
            with open(err, "w") as fh:
                fh.write(p.stderr)
            if os.path.exists(tmp):
                os.replace(tmp, out)
            if p.returncode != 0 and not os.path.exists(out):
                return name, None, p.stderr
        with open(out) as fh:
            d = json.load(fh)
        e = ""
        if d.get("parseErrors"):
            try:
                e = open(err).read()
            except OSError:
                e = "parse errors"
        return name, d, e

    res = {}
    errs = {}
    with ThreadPoolExecutor(max_workers=16) as ex:
        for name, d, e in ex.map(run, todo.items()):
            if d is None:
                raise AnalysisBroken("unit %s could not be parsed:\n%s" % (name, e[-2000:]))
            res[name] = d
            if e:
                errs[name] = e
    return res, errs


QUICK_UNITS = [k for k, v in unit_table("/repo").items() if v[3] == "quick"]
ALL_UNITS = list(unit_table("/repo").keys())

# --------------------------------------------------------------------------
# program model
# --------------------------------------------------------------------------
TRANSPARENT = {"ImplicitCastExpr", "ParenExpr", "ExprWithCleanups", "MaterializeTemporaryExpr",
               "CXXBindTemporaryExpr", "CXXFunctionalCastExpr", "CStyleCastExpr", "CXXStaticCastExpr",
               "CXXConstCastExpr", "CXXReinterpretCastExpr", "ConstantExpr", "SubstNonTypeTemplateParmExpr",
               "CXXDefaultArgExpr"}
IMPLICIT_ONLY = {"ImplicitCastExpr", "ParenExpr", "ExprWithCleanups", "MaterializeTemporaryExpr",
                 "CXXBindTemporaryExpr", "ConstantExpr", "CXXDefaultArgExpr"}


NORMALIZE = os.environ.get("PSV_NO_NORMALIZE") is None
NORMALIZE_REL = os.environ.get("PSV_NO_NORMALIZE_REL") is None
NORMALIZE_ALIAS = os.environ.get("PSV_NO_NORMALIZE_ALIAS") is None
NORMALIZE_LOOPS = os.environ.get("PSV_NO_NORMALIZE_LOOPS") is None
WALK_INTO_LAMBDAS = os.environ.get("PSV_WALK_LAMBDAS") is not None
NORMALIZE_FOLD = os.environ.get("PSV_NO_NORMALIZE_FOLD") is None
NORMALIZE_NEW_LOCALS = os.environ.get("PSV_NO_NORMALIZE_NEW_LOCALS") is None
_INV = None


def INVENTORY():
    """functions, locals and switch-bearing functions of the pinned tree (psv/inventory.json, tools/gen_inventory.py)"""
    global _INV
    if _INV is None:
        d = json.load(open(os.path.join(VERIF, "psv", "inventory.json")))
        _INV = {k: set(v) for k, v in d.items()}
    return _INV
NORMALIZE_CALLS = os.environ.get("PSV_NO_NORMALIZE_CALLS") is None


class Function:
    def __init__(self, d, unit):
        self.d = d
        self.unit = unit
        self.usr = d["usr"]
        self.name = d["name"]
        self.qname = d["qname"]
        self.file = d["file"]
        self.line = d["line"]
        self.nodes = d["nodes"]
        self.body = d["body"]
        self.kind = d["kind"]
        self.cls = d.get("cls")
        self.externC = d["externC"]
        self.noexcept = d["noexcept"]
        self.params = d["params"]
        self.targs = d.get("targs", [])
        self.cfg = d.get("cfg")
        self._parent = None
        self._blocks = None
        if NORMALIZE:
            self._normalize()

    # ---- normal form (semantics-preserving rewrites applied once, in place, when the function is loaded)
    def _value_unused(self, i):
        """True when the value of expression node i is discarded: it is a statement of its own, the init/inc part of a for, or
        an operand of a comma operator whose own value is discarded (the left one always)."""
        par = self.parent
        p = par[i]
        while p >= 0 and self.nodes[p]["k"] in ("ParenExpr", "ExprWithCleanups"):
            i, p = p, par[p]
        if p < 0:
            return False
        n = self.nodes[p]
        k = n["k"]
        if k in ("CompoundStmt", "LabelStmt", "CaseStmt", "DefaultStmt", "AttributedStmt"):
            return True
        if k == "ForStmt":
            return i in (n.get("init"), n.get("inc"), n.get("body"))
        if k == "IfStmt":
            return i in (n.get("then"), n.get("else"))
        if k in ("WhileStmt", "DoStmt", "CXXForRangeStmt"):
            return i == n.get("body")
        if k == "BinaryOperator" and n.get("op") == ",":
            return n["ch"][0] == i or self._value_unused(p)
        return False

    def _normalize(self):
        """N1: an increment or decrement whose value is discarded is written `x++` / `x--`: `++x`, `x += 1`, `x = x + 1`, `x = 1 + x`
        (and the decrement forms) are brought to that form.  Only scalar built-in operators are touched (an overloaded
        operator is a CXXOperatorCallExpr and stays as written)."""
        for i, n in enumerate(self.nodes):
            k = n["k"]
            if k == "UnaryOperator" and n.get("op") in ("++", "--") and not n.get("postfix"):
                if self._value_unused(i):
                    n["postfix"] = True
                    n["normalized"] = "prefix"
            elif k == "CompoundAssignOperator" and n.get("op") in ("+=", "-="):
                r = self.nodes[self.strip(n["ch"][1], casts=False)]
                if r["k"] == "IntegerLiteral" and r.get("v") == 1 and self._value_unused(i):
                    t = self.nodes[self.strip(n["ch"][0], casts=False)].get("t", "")
                    if "float" in t or "double" in t:
                        continue
                    n["k"] = "UnaryOperator"
                    n["op"] = "++" if n["op"] == "+=" else "--"
                    n["postfix"] = True
                    n["normalized"] = "compound"
                    n["ch"] = [n["ch"][0]]
            elif k == "BinaryOperator" and n.get("op") == "=":
                l = self.strip(n["ch"][0], casts=False)
                r = self.nodes[self.strip(n["ch"][1], casts=False)]
                if self.nodes[l]["k"] != "DeclRefExpr" or r["k"] != "BinaryOperator" or r.get("op") not in ("+", "-"):
                    continue
                t = self.nodes[l].get("t", "")
                if "float" in t or "double" in t or "*" in t:
                    continue
                a, b = (self.strip(x, casts=False) for x in r["ch"])
                one = lambda x: self.nodes[x]["k"] == "IntegerLiteral" and self.nodes[x].get("v") == 1
                same = lambda x: self.nodes[x]["k"] == "DeclRefExpr" and self.nodes[x]["decl"].get("id") == self.nodes[l]["decl"].get("id")
                if ((same(a) and one(b)) or (r["op"] == "+" and one(a) and same(b))) and self._value_unused(i):
                    n["k"] = "UnaryOperator"
                    n["op"] = "++" if r["op"] == "+" else "--"
                    n["postfix"] = True
                    n["normalized"] = "assign"
                    n["ch"] = [n["ch"][0]]
        # N2: relational operators point left-to-right: `a > b` is `b < a`, `a >= b` is `b <= a` (built-in operators only; the
        #     evaluation order of the operands of a relational operator is unspecified, so nothing observable changes)
        # N3: `!(a == b)` is `a != b` and `!(a != b)` is `a == b` (true for NaN as well; orderings are NOT negated: !(a<b) differs from a>=b on NaN)
        # N4: a literal operand of a commutative built-in operator sits on the right for + == != and on the left for *
        if NORMALIZE_REL:
            lit = lambda x: self.nodes[self.strip(x, casts=False)]["k"] in ("IntegerLiteral", "FloatingLiteral", "CharacterLiteral")
            for i, n in enumerate(self.nodes):
                if n["k"] != "BinaryOperator":
                    continue
                op = n.get("op")
                if op in (">", ">="):
                    n["op"] = "<" if op == ">" else "<="
                    n["ch"] = [n["ch"][1], n["ch"][0]]
                    n["normalized"] = "flipped"
                elif op in ("+", "==", "!=") and lit(n["ch"][0]) and not lit(n["ch"][1]):
                    n["ch"] = [n["ch"][1], n["ch"][0]]
                    n["normalized"] = "swapped"
                elif op == "*" and lit(n["ch"][1]) and not lit(n["ch"][0]):
                    n["ch"] = [n["ch"][1], n["ch"][0]]
                    n["normalized"] = "swapped"
            for i, n in enumerate(self.nodes):
                if n["k"] == "UnaryOperator" and n.get("op") == "!":
                    c = self.strip(n["ch"][0], casts=False)
                    cn = self.nodes[c]
                    if cn["k"] == "BinaryOperator" and cn.get("op") in ("==", "!="):
                        n.update({kk: vv for kk, vv in cn.items() if kk not in ("loc", "f")})
                        n["op"] = "!=" if cn["op"] == "==" else "=="
                        n["ch"] = list(cn["ch"])
                        n["normalized"] = "negation folded"
        self._parent = None
        if NORMALIZE_LOOPS:
            self._while_to_for()
            self._split_for_condition()
            self._ternary_store_to_if()
            self._else_to_continue()
            self._unbrace()
        if NORMALIZE_ALIAS and self.cfg:
            self._inline_const_aliases()

    # N13: an if/else chain that ends a loop body, whose leading branches only assign (clamp and skip), is written with `continue`:
    #      `if (c) A else B` as the last statement of a loop body is `if (c) { A; continue; } B` when B is a block or a further if.
    def _else_to_continue(self):
        JUMPS = ("ReturnStmt", "ContinueStmt", "BreakStmt", "GotoStmt", "CXXThrowExpr")

        for L in range(len(self.nodes)):
            ln = self.nodes[L]
            if ln["k"] not in ("ForStmt", "WhileStmt", "DoStmt", "CXXForRangeStmt"):
                continue
            body = ln.get("body", -1)
            if body is None or body < 0 or self.nodes[body]["k"] != "CompoundStmt":
                continue
            changed = True
            while changed:
                changed = False
                kids = [x for x in self.nodes[body]["ch"] if x >= 0]
                if not kids:
                    break
                last = kids[-1]
                n = self.nodes[last]
                if n["k"] != "IfStmt" or n.get("else", -1) < 0:
                    break
                then = n["then"]
                if any(self.nodes[x]["k"] in JUMPS or "callee" in self.nodes[x] or self.nodes[x]["k"] in ("ForStmt", "WhileStmt", "DoStmt", "IfStmt", "DeclStmt")
                       for x in self.walk(then)):
                    break           # only the clamp-and-skip shape: the branch just assigns
                # only a chain in which some earlier branch of the same loop body already ends in `continue` (the pinned idiom) or whose
                # else-branch is itself a chain / block: a plain two-way if/else stays as it is
                els = n["else"]
                if self.nodes[els]["k"] not in ("IfStmt", "CompoundStmt"):
                    break
                base = dict(loc=n["loc"], f=n.get("f"), synthetic=True)
                self.nodes.append(dict(k="ContinueStmt", ch=[], **base))
                cont = len(self.nodes) - 1
                if self.nodes[then]["k"] == "CompoundStmt":
                    self.nodes[then]["ch"] = list(self.nodes[then]["ch"]) + [cont]
                else:
                    self.nodes.append(dict(k="CompoundStmt", ch=[then, cont], **base))
                    nt = len(self.nodes) - 1
                    n["then"] = nt
                    n["ch"] = [nt if x == then else x for x in n["ch"]]
                tail = list(self.nodes[els]["ch"]) if self.nodes[els]["k"] == "CompoundStmt" else [els]
                n["ch"] = [x for x in n["ch"] if x != els]
                n["else"] = -1
                n["normalized"] = "else to continue"
                self.nodes[body]["ch"] = kids + [x for x in tail if x >= 0]
                changed = True
        self._parent = None

    # N12: a statement `X = c ? a : b;` is `if (c) X = a; else X = b;` (built-in assignment whose value is discarded; X without side effects)
    def _ternary_store_to_if(self):
        for i in range(len(self.nodes)):
            n = self.nodes[i]
            if n["k"] != "BinaryOperator" or n.get("op") != "=" or not self._value_unused(i):
                continue
            r = self.strip(n["ch"][1], casts=False)
            rn = self.nodes[r]
            if rn["k"] != "ConditionalOperator" or len(rn["ch"]) != 3:
                continue
            lhs = n["ch"][0]
            if any(self.nodes[x]["k"] in ("CallExpr", "CXXMemberCallExpr", "CXXNewExpr") or
                   (self.nodes[x]["k"] == "UnaryOperator" and self.nodes[x].get("op") in ("++", "--")) or
                   (self.nodes[x]["k"] in ("BinaryOperator", "CompoundAssignOperator") and self.nodes[x].get("op", "").endswith("=") and
                    self.nodes[x]["op"] not in ("==", "!=", "<=", ">=")) for x in self.walk(lhs)):
                continue
            c, a, b = rn["ch"]
            base = dict(loc=n["loc"], f=n.get("f"), t=n.get("t"), synthetic=True)
            self.nodes.append(dict(k="BinaryOperator", op="=", ch=[lhs, a], **base))
            t_ = len(self.nodes) - 1
            lhs2 = self._copy_subtree(lhs)
            self.nodes.append(dict(k="BinaryOperator", op="=", ch=[lhs2, b], **base))
            e_ = len(self.nodes) - 1
            n.clear()
            n.update(dict(k="IfStmt", cond=c, then=t_, ch=[c, t_, e_], normalized="conditional store", **{kk: vv for kk, vv in base.items() if kk != "t"}))
            n["else"] = e_
        # N12b: `return c ? a : b;` is `if (c) return a; else return b;`
        for i in range(len(self.nodes)):
            n = self.nodes[i]
            if n["k"] != "ReturnStmt" or n.get("value", -1) is None or n.get("value", -1) < 0:
                continue
            r = self.strip(n["value"], casts=False)
            rn = self.nodes[r]
            if rn["k"] != "ConditionalOperator" or len(rn["ch"]) != 3:
                continue
            c, a, b = rn["ch"]
            if any("callee" in self.nodes[x] or self.nodes[x]["k"] in ("CXXNewExpr", "CompoundAssignOperator") or
                   (self.nodes[x]["k"] == "UnaryOperator" and self.nodes[x].get("op") in ("++", "--")) or
                   (self.nodes[x]["k"] == "BinaryOperator" and self.nodes[x].get("op") == "=") for x in self.walk(c)):
                continue
            base = dict(loc=n["loc"], f=n.get("f"), synthetic=True)
            self.nodes.append(dict(k="ReturnStmt", value=a, ch=[a], **base))
            t_ = len(self.nodes) - 1
            self.nodes.append(dict(k="ReturnStmt", value=b, ch=[b], **base))
            e_ = len(self.nodes) - 1
            n.clear()
            n.update(dict(k="IfStmt", cond=c, then=t_, ch=[c, t_, e_], normalized="conditional return", **base))
            n["else"] = e_
            # the CFG has one return element (after the blocks of the two arms): both synthetic returns stand there
            if self.cfg:
                for blk in self.cfg["blocks"]:
                    for j, e in enumerate(blk["elems"]):
                        if e.get("kind") == "stmt" and e.get("n") == i:
                            blk["elems"][j:j + 1] = [dict(e, n=t_), dict(e, n=e_)]
                            break
        self._parent = None

    # N10: `for (init; A && B; step) body` is `for (init; A; step) { if (!B) break; body }` when A is the comparison that bounds the
    #      variable the step advances (B is evaluated exactly when A held, immediately before the body, in both forms).
    def _split_for_condition(self):
        for i in range(len(self.nodes)):
            n = self.nodes[i]
            if n["k"] != "ForStmt" or n.get("cond", -1) < 0 or n.get("inc", -1) < 0 or n.get("body", -1) < 0:
                continue
            c = self.strip(n["cond"], casts=False)
            cn = self.nodes[c]
            if cn["k"] != "BinaryOperator" or cn.get("op") != "&&":
                continue
            a, b = cn["ch"]
            an = self.nodes[self.strip(a, casts=False)]
            inc = self.nodes[self.strip(n["inc"], casts=False)]
            if an["k"] != "BinaryOperator" or an.get("op") not in ("<", "<=", ">", ">=", "!=") or inc["k"] != "UnaryOperator":
                continue
            v = self.nodes[self.strip(inc["ch"][0])]
            if v["k"] != "DeclRefExpr":
                continue
            vid = v["decl"].get("id")
            if not any(self.nodes[x]["k"] == "DeclRefExpr" and self.nodes[x]["decl"].get("id") == vid for x in self.walk(a)):
                continue
            loc = dict(loc=self.nodes[b]["loc"], f=self.nodes[b].get("f"))
            bs = self.strip(b, casts=False)
            if self.nodes[bs]["k"] == "UnaryOperator" and self.nodes[bs].get("op") == "!":
                negb = self.nodes[bs]["ch"][0]
            else:
                self.nodes.append(dict(k="UnaryOperator", op="!", ch=[b], t="bool", synthetic=True, **loc))
                negb = len(self.nodes) - 1
            self.nodes.append(dict(k="BreakStmt", ch=[], synthetic=True, **loc))
            brk = len(self.nodes) - 1
            self.nodes.append(dict(k="IfStmt", cond=negb, then=brk, ch=[negb, brk], synthetic=True, **loc))
            self.nodes[-1]["else"] = -1
            ifn = len(self.nodes) - 1
            body = n["body"]
            if self.nodes[body]["k"] == "CompoundStmt":
                self.nodes[body]["ch"] = [ifn] + list(self.nodes[body]["ch"])
            else:
                self.nodes.append(dict(k="CompoundStmt", ch=[ifn, body], synthetic=True, **loc))
                nb = len(self.nodes) - 1
                n["body"] = nb
                n["ch"] = [nb if x == body else x for x in n["ch"]]
            oldc = n["cond"]
            n["cond"] = a
            n["ch"] = [a if x in (oldc, c) else x for x in n["ch"]]
            n["normalized"] = "condition split"
        self._parent = None

    # N9: braces around a single statement that is the body of a loop or a branch of an if are dropped (`if (c) { x; }` is `if (c) x;`);
    #     a lone declaration keeps its braces (it has a scope of its own).
    def _unbrace(self):
        for i, n in enumerate(self.nodes):
            if n["k"] not in ("IfStmt", "ForStmt", "WhileStmt", "DoStmt", "CXXForRangeStmt"):
                continue
            for key in ("then", "else", "body"):
                b = n.get(key, -1)
                if b is None or b < 0:
                    continue
                bn = self.nodes[b]
                kids = [x for x in bn["ch"] if x >= 0]
                if bn["k"] == "CompoundStmt" and len(kids) == 1 and self.nodes[kids[0]]["k"] not in ("DeclStmt", "CompoundStmt"):
                    n[key] = kids[0]
                    n["ch"] = [kids[0] if x == b else x for x in n["ch"]]
                    n.setdefault("unbraced", []).append(key)
        self._parent = None

    # N8: `init; while (cond) { body...; step; }` is `for (init; cond; step) { body... }` when init sets (or declares) the variable that
    #     step advances, that variable occurs in cond, the body has at least one more statement and no `continue` of its own.
    def _while_to_for(self):
        def step_var(x):
            n = self.nodes[self.strip(x, casts=False)] if x >= 0 else None
            if n is None:
                return None
            if n["k"] == "UnaryOperator" and n.get("op") in ("++", "--"):
                t = self.nodes[self.strip(n["ch"][0])]
            elif n["k"] == "CompoundAssignOperator" and n.get("op") in ("+=", "-="):
                t = self.nodes[self.strip(n["ch"][0])]
            else:
                return None
            return t["decl"].get("id") if t["k"] == "DeclRefExpr" and t["decl"].get("kind") == "Var" else None

        def own_continue(body):
            st = [body]
            while st:
                x = st.pop()
                if x < 0:
                    continue
                k = self.nodes[x]["k"]
                if k == "ContinueStmt":
                    return True
                if k in ("ForStmt", "WhileStmt", "DoStmt", "CXXForRangeStmt", "LambdaExpr"):
                    continue
                st.extend(self.ch(x))
            return False
        for c, cn in enumerate(self.nodes):
            if cn["k"] != "CompoundStmt":
                continue
            kids = cn["ch"]
            for j in range(1, len(kids)):
                w = kids[j]
                if w < 0 or self.nodes[w]["k"] != "WhileStmt":
                    continue
                wn = self.nodes[w]
                body = wn.get("body", -1)
                if body < 0 or self.nodes[body]["k"] != "CompoundStmt" or len(self.ch(body)) < 2 or own_continue(body):
                    continue
                last = self.ch(body)[-1]
                v = step_var(last)
                if v is None or not any(self.nodes[x]["k"] == "DeclRefExpr" and self.nodes[x]["decl"].get("id") == v for x in self.walk(wn["cond"])):
                    continue
                ini = kids[j - 1]
                inn = self.nodes[ini] if ini >= 0 else None
                ok = False
                if inn and inn["k"] == "DeclStmt" and len(inn["decls"]) == 1 and inn["decls"][0].get("id") == v and inn["decls"][0].get("init", -1) >= 0:
                    ok = True
                elif inn and inn["k"] == "BinaryOperator" and inn.get("op") == "=":
                    l = self.nodes[self.strip(inn["ch"][0])]
                    ok = l["k"] == "DeclRefExpr" and l["decl"].get("id") == v
                if not ok:
                    # N8b: no initialisation in front of it: the loop carries on with the variable as an earlier loop left it,
                    # `for (; cond; step) body` (the continuation form of the pinned tree's margin loops)
                    bn = self.nodes[body]
                    bn["ch"] = [x for x in bn["ch"] if x != last]
                    wn["k"] = "ForStmt"
                    wn["init"], wn["inc"] = -1, last
                    wn["ch"] = [-1, -1, wn["cond"], last, body]
                    wn["normalized"] = "while (continuation)"
                    continue
                bn = self.nodes[body]
                bn["ch"] = [x for x in bn["ch"] if x != last]
                wn["k"] = "ForStmt"
                wn["init"], wn["inc"] = ini, last
                wn["ch"] = [ini, -1, wn["cond"], last, body]
                wn["normalized"] = "while"
                kids[j - 1] = -1
            cn["ch"] = [x for x in kids if x >= 0]
        self._parent = None

    # N6: a const-qualified arithmetic local initialised with a plain read of memory (`const uint64_t n = nknots[i];`,
    #     `const int nk = int(nknots);`, `const uint64_t old = this->naxes[dim];`) is a name for that read: every use is replaced by a copy
    #     of the initialiser, provided nothing that the read depends on can be written between the declaration and the use (a store to
    #     a variable, field or array of one of the names in the path, a call that receives one of them by address or non-const
    #     reference, or any call to a non-const member function of the enclosing class).  Otherwise the local is left alone.
    _PATH_KINDS = {"DeclRefExpr", "MemberExpr", "ArraySubscriptExpr", "CXXThisExpr", "IntegerLiteral", "ImplicitCastExpr", "ParenExpr",
                   "CStyleCastExpr", "CXXFunctionalCastExpr", "CXXStaticCastExpr"}

    def _path_names(self, i):
        """names a pure access path reads (variables, fields), or None if node i is not a pure access path."""
        names = set()
        for x in self.walk(i):
            n = self.nodes[x]
            if n["k"] not in self._PATH_KINDS:
                return None
            if n["k"] == "DeclRefExpr":
                if n["decl"].get("kind") not in ("Var", "ParmVar"):
                    return None
                names.add(n["decl"]["name"])
            elif n["k"] == "MemberExpr":
                names.add(n["member"])
        return names

    RELEASERS = ("deallocate", "free", "realloc", "clear", "reset", "operator delete", "operator delete[]")

    def _writes_between(self, names, pd, pu, pos, through_caller_pointer=False):
        """is there a CFG element that may write one of `names` on a path from position pd (declaration) to position pu (use)?
        through_caller_pointer: the value is read through a pointer parameter, whose target may be storage this function releases —
        a release (deallocate / free / clear) in between ends the lifetime of what was read, so the read may not be moved past it"""
        def lhs_names(l):
            out = set()
            for x in self.walk(l):
                n = self.nodes[x]
                if n["k"] == "DeclRefExpr":
                    out.add(n["decl"]["name"])
                elif n["k"] == "MemberExpr":
                    out.add(n["member"])
            return out
        after_decl = self.reachable_blocks(pd[0])
        for b, blk in self.blocks.items():
            if b not in after_decl:
                continue
            for j, e in enumerate(blk["elems"]):
                if e.get("kind") != "stmt":
                    continue
                x = e["n"]
                n = self.nodes[x]
                k = n["k"]
                hit = False
                if (k in ("BinaryOperator", "CompoundAssignOperator") and n.get("op", "").endswith("=") and n["op"] not in ("==", "!=", "<=", ">=")) \
                        or (k == "UnaryOperator" and n.get("op") in ("++", "--")):
                    l = self.strip(n["ch"][0])
                    # the stored-to location: outermost variable/field of the left-hand side and everything it is indexed through
                    hit = bool(lhs_names(l) & names and self._lhs_root_names(l) & names)
                elif "callee" in n or n.get("indirect"):
                    cal = n.get("callee") or {}
                    if through_caller_pointer and (cal.get("name") in self.RELEASERS or str(cal.get("name", "")).startswith("cholmod_l_free")):
                        hit = True
                    if cal.get("cls") and cal.get("cls") == self.cls and cal.get("mkind") not in ("ctor",) and not cal.get("isConst", False) \
                            and not cal.get("isStatic") and cal.get("name") not in ("allocate", "deallocate"):
                        hit = True
                    for a in n["ch"][1:] if k != "CXXConstructExpr" else n["ch"]:
                        if a < 0:
                            continue
                        an = self.nodes[self.strip(a, casts=False)]
                        t = self.nodes[a].get("t", "")
                        if an["k"] == "UnaryOperator" and an.get("op") == "&":
                            if self._lhs_root_names(an["ch"][0]) & names:
                                hit = True
                        elif "*" in t and "const" not in t:
                            if self._lhs_root_names(a) & names:
                                hit = True
                if not hit:
                    continue
                ps = (b, j)
                # after the declaration?
                if ps[0] == pd[0] and ps[1] <= pd[1] and pd[0] not in self.reachable_blocks_from_succs(pd[0]):
                    continue
                # can the use be reached from the write without passing the declaration again?
                if ps[0] == pu[0] and ps[1] < pu[1]:
                    return True
                if pu[0] in self.reachable_blocks_from_succs(ps[0], avoid=(pd[0],) if ps[0] != pd[0] else ()):
                    return True
        return False

    def _lhs_root_names(self, l):
        """name of the variable/field that designates the object a store goes to (x, x[i], x->f, *x: x / f)."""
        out = set()
        l = self.strip(l)
        n = self.nodes[l]
        while True:
            if n["k"] == "ArraySubscriptExpr":
                l = self.strip(n["ch"][0]); n = self.nodes[l]
            elif n["k"] == "UnaryOperator" and n.get("op") == "*":
                l = self.strip(n["ch"][0]); n = self.nodes[l]
            elif n["k"] == "CXXOperatorCallExpr" and n.get("opcall") == "[]":
                l = self.strip(n["ch"][1]); n = self.nodes[l]
            else:
                break
        if n["k"] == "DeclRefExpr":
            out.add(n["decl"]["name"])
        elif n["k"] == "MemberExpr":
            out.add(n["member"])
        return out

    def reachable_blocks_from_succs(self, b, avoid=()):
        seen = set()
        st = list(self.succs(b))
        while st:
            x = st.pop()
            if x in seen or x in avoid:
                continue
            seen.add(x)
            st.extend(self.succs(x))
        return seen

    def _copy_subtree(self, i):
        m = {}
        for x in list(self.walk(i)):
            m[x] = len(self.nodes)
            self.nodes.append(dict(self.nodes[x]))
        for x, y in m.items():
            n = self.nodes[y]
            n["ch"] = [m.get(c, c) for c in n["ch"]]
            for key in ("cond", "then", "else", "init", "inc", "body"):
                if key in n and n[key] in m:
                    n[key] = m[n[key]]
            n["copyOf"] = x
        return m[i]

    _PURE_KINDS = _PATH_KINDS | {"BinaryOperator", "UnaryOperator", "ConditionalOperator", "FloatingLiteral", "CXXNullPtrLiteralExpr", "GNUNullExpr",
                                 "CXXBoolLiteralExpr", "CXXReinterpretCastExpr", "CXXConstCastExpr", "MaterializeTemporaryExpr", "ExprWithCleanups",
                                 "UnaryExprOrTypeTraitExpr", "SubstNonTypeTemplateParmExpr", "ConstantExpr"}

    def _pure_names(self, i):
        """names a side-effect-free expression reads, or None if node i is not side-effect free (built-in operators, casts, subscripts —
        also std::vector / array_view operator[] and the observers size()/data()/get())."""
        names = set()
        for x in self.walk(i):
            n = self.nodes[x]
            k = n["k"]
            if k in ("CXXOperatorCallExpr",) and n.get("opcall") == "[]":
                continue
            if k == "CXXMemberCallExpr" and (n.get("callee") or {}).get("name") in ("size", "data", "get", "begin", "end") and len(n["ch"]) == 1:
                continue
            if k not in self._PURE_KINDS:
                return None
            if k in ("BinaryOperator",) and (n.get("op", "").endswith("=") and n["op"] not in ("==", "!=", "<=", ">=")):
                return None
            if k == "UnaryOperator" and n.get("op") in ("++", "--"):
                return None
            if k == "DeclRefExpr":
                if n["decl"].get("kind") in ("Var", "ParmVar"):
                    names.add(n["decl"]["name"])
                elif n["decl"].get("kind") == "StaticMember":
                    if "const" not in (n["decl"].get("type") or n.get("t") or ""):
                        names.add(n["decl"]["name"])
                elif n["decl"].get("kind") not in ("EnumConstant", "Function", "CXXMethod", "NonTypeTemplateParm"):
                    return None
            elif k == "MemberExpr":
                names.add(n["member"])
        return names

    def _inline_const_aliases(self):
        pos = None
        try:
            known = INVENTORY()["locals"] if NORMALIZE_NEW_LOCALS else None
        except (OSError, ValueError, KeyError):
            known = None
        tag = "%s:%s:" % (os.path.basename(self.file), self.name)
        gone = set()
        for i in list(self.walk()):
            n = self.nodes[i]
            if n["k"] != "DeclStmt":
                continue
            for d in n.get("decls", []):
                t = d.get("type", "")
                ct = d.get("ctype", t)
                if d.get("dk") != "Var" or d.get("static"):
                    continue
                is_new = known is not None and self.file.startswith(REPO) and (tag + d.get("name", "")) not in known
                def_node = i            # where the value is defined: the declaration, or — for `T v; ... v = e;` — the single assignment
                init = d.get("init", -1)
                lhs_of_def = -1
                if init < 0:
                    if not is_new:
                        continue
                    asg = [x for x in self.walk() if self.nodes[x]["k"] == "BinaryOperator" and self.nodes[x].get("op") == "=" and
                           self.nodes[self.strip(self.nodes[x]["ch"][0])]["k"] == "DeclRefExpr" and
                           self.nodes[self.strip(self.nodes[x]["ch"][0])]["decl"].get("id") == d["id"] and
                           self.nodes[self.strip(self.nodes[x]["ch"][0])]["decl"].get("kind") == "Var"]
                    if len(asg) != 1 or not self._value_unused(asg[0]):
                        continue
                    def_node = asg[0]
                    init = self.nodes[asg[0]]["ch"][1]
                    lhs_of_def = self.strip(self.nodes[asg[0]]["ch"][0])
                if is_new and ct.endswith("&") and not ct.endswith("&&") and init >= 0 and lhs_of_def < 0 and not any(c in ct for c in "[<"):
                    # a reference the pinned tree does not have names an object: `int& center = centers[i];` — every use of the reference is
                    # that lvalue, as long as nothing assigns to the variables the lvalue's address is computed from while the
                    # reference is in scope (stores THROUGH the lvalue are what the reference is for)
                    if self._path_names(init) is None:
                        continue
                    scope = self.parent[i]
                    addr_ids = {self.nodes[y]["decl"].get("id") for y in self.walk(init) if self.nodes[y]["k"] == "DeclRefExpr" and
                                self.nodes[y]["decl"].get("kind") in ("Var", "ParmVar")}
                    rebinds = False
                    for x in self.walk(scope if scope >= 0 else None):
                        m = self.nodes[x]
                        tgt = None
                        if m["k"] in ("BinaryOperator", "CompoundAssignOperator") and m.get("op", "").endswith("=") and m["op"] not in ("==", "!=", "<=", ">="):
                            tgt = self.strip(m["ch"][0])
                        elif m["k"] == "UnaryOperator" and m.get("op") in ("++", "--"):
                            tgt = self.strip(m["ch"][0])
                        if tgt is not None and self.nodes[tgt]["k"] == "DeclRefExpr" and self.nodes[tgt]["decl"].get("id") in addr_ids:
                            rebinds = True
                    if rebinds or any(self.nodes[y]["k"] in ("CallExpr", "CXXMemberCallExpr", "CXXOperatorCallExpr") for y in self.walk(init)):
                        continue
                    uses = [x for x in self.walk() if self.nodes[x]["k"] == "DeclRefExpr" and self.nodes[x]["decl"].get("id") == d["id"]
                            and self.nodes[x]["decl"].get("kind") == "Var"]
                    if not uses:
                        continue
                    for u in uses:
                        c = self._copy_subtree(init)
                        un = self.nodes[u]
                        un["aliasOf"] = d["name"]
                        un["k"] = "ParenExpr"
                        un["ch"] = [c]
                    d["inlined"] = True
                    if all(dd.get("inlined") for dd in n.get("decls", [])):
                        gone.add(i)
                    continue
                if is_new:
                    # a local that the pinned tree does not have (a later refactoring introduced it): any scalar or pointer with a
                    # side-effect-free initialiser that is never assigned again and whose address is not taken
                    if any(c in ct for c in "[<") or ct.endswith("&") or "unique_ptr" in ct:
                        continue
                    vid = d["id"]
                    touched = False
                    for x in self.walk():
                        m = self.nodes[x]
                        tgt = None
                        if x == def_node and lhs_of_def >= 0:
                            continue
                        if m["k"] in ("BinaryOperator", "CompoundAssignOperator") and m.get("op", "").endswith("=") and m["op"] not in ("==", "!=", "<=", ">="):
                            tgt = self.strip(m["ch"][0])
                        elif m["k"] == "UnaryOperator" and m.get("op") in ("++", "--", "&"):
                            tgt = self.strip(m["ch"][0])
                        if tgt is not None and self.nodes[tgt]["k"] == "DeclRefExpr" and self.nodes[tgt]["decl"].get("id") == vid and self.nodes[tgt]["decl"].get("kind") == "Var":
                            touched = True
                    if touched:
                        continue
                    names = self._pure_names(init)
                    if names is None:
                        continue
                else:
                    if not t.startswith("const ") or any(c in ct for c in "*&[<"):
                        continue
                    names = self._path_names(d["init"])
                    if not names or self.nodes[self.strip(d["init"])]["k"] == "IntegerLiteral":
                        continue
                if pos is None:
                    pos = self.node_positions()
                pd = pos.get(def_node)
                if pd is None and is_new and len(n.get("decls", [])) > 1:
                    # `const T a = e1, b = e2;` — the CFG holds one synthetic declaration per variable; the value is defined where its
                    # initialiser is evaluated
                    pd = pos.get(init) or pos.get(self.strip(init))
                if pd is None:
                    continue
                uses = [x for x in self.walk() if self.nodes[x]["k"] == "DeclRefExpr" and self.nodes[x]["decl"].get("id") == d["id"]
                        and self.nodes[x]["decl"].get("kind") == "Var" and x != lhs_of_def]
                ok = bool(uses)
                via_param = any(self.nodes[y]["k"] == "DeclRefExpr" and self.nodes[y]["decl"].get("kind") == "ParmVar" and "*" in self.nodes[y]["decl"].get("type", "")
                                for y in self.walk(init))
                for u in uses:
                    pu = pos.get(u)
                    x_ = u
                    while pu is None and x_ >= 0:            # a node the normal form created: the position of the statement that holds it
                        x_ = self.parent[x_]
                        pu = pos.get(x_) if x_ >= 0 else None
                    if pu is None or self._writes_between(names, pd, pu, pos, through_caller_pointer=via_param):
                        ok = False
                        break
                if not ok:
                    continue
                for u in uses:
                    c = self._copy_subtree(init)
                    un = self.nodes[u]
                    un["aliasOf"] = d["name"]
                    un["k"] = "ParenExpr"
                    un["ch"] = [c]
                d["inlined"] = True
                if is_new:
                    gone.add(def_node)          # the definition itself leaves the tree: the value lives at its uses now
                    if all(dd.get("inlined") for dd in n.get("decls", [])):
                        gone.add(i)
        if gone:
            for m in self.nodes:
                if m["k"] == "CompoundStmt" and any(x in gone for x in m["ch"]):
                    m["ch"] = [x for x in m["ch"] if x not in gone]
        self._parent = None
        # N17: `(&A[0])[k]` is `A[k]` (a pointer to the first element, subscripted) — what an inlined `p = &A[0]` leaves behind
        for i in list(self.walk()):
            n = self.nodes[i]
            if n["k"] != "ArraySubscriptExpr" or len(n["ch"]) != 2:
                continue
            b = self.strip(n["ch"][0])
            bn = self.nodes[b]
            if bn["k"] == "UnaryOperator" and bn.get("op") == "&":
                e = self.strip(bn["ch"][0])
                en = self.nodes[e]
                if en["k"] == "ArraySubscriptExpr" and len(en["ch"]) == 2:
                    z = self.nodes[self.strip(en["ch"][1])]
                    if z["k"] == "IntegerLiteral" and z.get("v") == 0:
                        n["ch"] = [en["ch"][0], n["ch"][1]]
                        n["normalized"] = "address of first element"
        self._parent = None

    # ---- tree
    @property
    def parent(self):
        if self._parent is None:
            par = [-1] * len(self.nodes)
            for i, n in enumerate(self.nodes):
                for c in n["ch"]:
                    if c >= 0 and par[c] == -1 and c != i:
                        par[c] = i
            self._parent = par
        return self._parent

    def n(self, i):
        return self.nodes[i]

    def k(self, i):
        return self.nodes[i]["k"]

    def ch(self, i):
        return [c for c in self.nodes[i]["ch"] if c >= 0]

    def walk(self, i=None):
        """pre-order over the subtree (each node once)."""
        if i is None:
            i = self.body
        seen = set()
        st = [i]
        while st:
            x = st.pop()
            if x < 0 or x in seen:
                continue
            seen.add(x)
            yield x
            if self.nodes[x]["k"] == "LambdaExpr" and x != i and not WALK_INTO_LAMBDAS:
                continue        # the body of a lambda is a function of its own (extracted separately); it does not execute here
            st.extend(reversed(self.ch(x)))

    def strip(self, i, casts=True):
        """skip implicit wrappers (and explicit casts when casts=True)."""
        S = TRANSPARENT if casts else IMPLICIT_ONLY
        while i >= 0 and self.nodes[i]["k"] in S and self.ch(i):
            i = self.ch(i)[-1] if self.nodes[i]["k"] == "SubstNonTypeTemplateParmExpr" else self.ch(i)[0]
        return i

    MIRROR = {"<": ">", "<=": ">=", ">": "<", ">=": "<=", "==": "==", "!=": "!="}

    def oriented(self, c, left_is):
        """(lhs, op, rhs) of comparison node c with the operand for which left_is(node id) holds on the left, the operator mirrored
        when the operands had to be swapped (so rules need not care how the source — or the normal form — orients a comparison);
        None if c is not a built-in comparison or neither operand qualifies."""
        c = self.strip(c)
        n = self.nodes[c]
        if n["k"] != "BinaryOperator" or n.get("op") not in self.MIRROR:
            return None
        a, b = (self.strip(x) for x in n["ch"])
        if left_is(a):
            return a, n["op"], b
        if left_is(b):
            return b, self.MIRROR[n["op"]], a
        return None

    def seq(self, i):
        """position of node i in a pre-order walk of the function's current tree (source order; valid after the normal form has copied or
        moved nodes, when node ids no longer say which comes first)"""
        if getattr(self, "_seq", None) is None or self._parent is None:
            self._seq = {x: k for k, x in enumerate(self.walk())}
            _ = self.parent
        return self._seq.get(i, 1 << 30)

    def ancestors(self, i):
        p = self.parent[i]
        while p >= 0:
            yield p
            p = self.parent[p]

    def loc(self, i):
        n = self.nodes[i]
        return "%s:%d" % (os.path.relpath(n.get("f") or self.file, REPO) if (n.get("f") or self.file).startswith(REPO)
                          else (n.get("f") or self.file), n["loc"][0])

    def where(self):
        f = self.file
        if f.startswith(REPO):
            f = os.path.relpath(f, REPO)
        return "%s:%d" % (f, self.line)

    # ---- calls
    def calls(self, root=None):
        """yield (node id, callee dict or None) for every call/construct in subtree."""
        for i in self.walk(root):
            n = self.nodes[i]
            if "callee" in n or n.get("indirect"):
                yield i, n.get("callee")

    def callee_name(self, i):
        n = self.nodes[i]
        c = n.get("callee")
        if not c:
            return None
        ms = n.get("calleeMacros")
        return c["name"]

    def call_macro(self, i):
        """outermost macro name through which the callee token was written, e.g. fits_write_key."""
        ms = self.nodes[i].get("calleeMacros")
        return ms[-1] if ms else None

    def args(self, i):
        """argument node ids of a call (skipping callee / object expression)."""
        n = self.nodes[i]
        ch = n["ch"]
        k = n["k"]
        if k in ("CXXConstructExpr", "CXXTemporaryObjectExpr"):
            return ch
        if k == "CXXMemberCallExpr":
            return ch[1:]
        if k == "CXXOperatorCallExpr":
            return ch[1:]
        return ch[1:]

    def enclosing_try(self, i):
        """list of (try node, in_try_block: bool, handler node or None) from inner to outer."""
        res = []
        prev = i
        for a in self.ancestors(i):
            n = self.nodes[a]
            if n["k"] == "CXXTryStmt":
                if prev == n["tryBlock"]:
                    res.append((a, True, None))
                else:
                    res.append((a, False, prev))
            prev = a
        return res

    # ---- rendering
    def render(self, i, depth=0):
        if i < 0:
            return ""
        n = self.nodes[i]
        k = n["k"]
        c = self.ch(i)
        R = self.render
        if k in IMPLICIT_ONLY or k in ("ConstantExpr",):
            return R(c[0]) if c else ""
        if k == "SubstNonTypeTemplateParmExpr":
            return "%s" % n.get("param")
        if k in ("CStyleCastExpr", "CXXFunctionalCastExpr", "CXXStaticCastExpr", "CXXConstCastExpr",
                 "CXXReinterpretCastExpr"):
            return "(%s)%s" % (n.get("t"), R(c[0]))
        if k == "DeclRefExpr":
            nm = getattr(self, "_names", None)
            if nm and n["decl"].get("id") in nm and n["decl"]["kind"] in ("Var", "ParmVar"):
                return nm[n["decl"]["id"]]
            return n["decl"]["name"]
        if k == "MemberExpr":
            b = R(c[0]) if c else "this"
            if c and self.nodes[self.strip(c[0])]["k"] == "CXXThisExpr":
                return "this->" + n["member"]
            return b + ("->" if n.get("arrow") else ".") + n["member"]
        if k == "CXXThisExpr":
            return "this"
        if k in ("IntegerLiteral", "CharacterLiteral", "CXXBoolLiteralExpr"):
            return str(n.get("v"))
        if k == "FloatingLiteral":
            return repr(n.get("v"))
        if k == "StringLiteral":
            return json.dumps(n.get("v"))
        if k in ("CXXNullPtrLiteralExpr", "GNUNullExpr"):
            return "nullptr"
        if k in ("BinaryOperator", "CompoundAssignOperator"):
            return "(%s %s %s)" % (R(c[0]), n["op"], R(c[1]))
        if k == "UnaryOperator":
            return ("(%s%s)" % (R(c[0]), n["op"])) if n.get("postfix") else ("(%s%s)" % (n["op"], R(c[0])))
        if k == "ArraySubscriptExpr":
            return "%s[%s]" % (R(c[0]), R(c[1]))
        if k == "ConditionalOperator":
            return "(%s ? %s : %s)" % (R(c[0]), R(c[1]), R(c[2]))
        if k == "UnaryExprOrTypeTraitExpr":
            return "sizeof(%s)" % n.get("argType")
        if k == "SizeOfPackExpr":
            return "sizeof...(%s)" % n.get("pack")
        if k == "CXXOperatorCallExpr":
            op = n.get("opcall")
            a = c[1:]
            if op == "[]" and len(a) == 2:
                return "%s[%s]" % (R(a[0]), R(a[1]))
            if op == "()" :
                return "%s(%s)" % (R(a[0]), ", ".join(R(x) for x in a[1:]))
            if len(a) == 2:
                return "(%s %s %s)" % (R(a[0]), op, R(a[1]))
            if len(a) == 1:
                return "(%s%s)" % (op, R(a[0]))
        if k in ("CallExpr", "CXXMemberCallExpr"):
            cal = n.get("callee")
            nm = cal["name"] if cal else R(c[0])
            if k == "CXXMemberCallExpr":
                me = self.strip(c[0])
                obj = self.ch(me)
                o = R(obj[0]) if obj else "this"
                return "%s.%s(%s)" % (o, nm, ", ".join(R(x) for x in c[1:]))
            return "%s(%s)" % (nm, ", ".join(R(x) for x in c[1:]))
        if k in ("CXXConstructExpr", "CXXTemporaryObjectExpr"):
            real = [x for x in c if self.nodes[x]["k"] != "CXXDefaultArgExpr"]
            if len(real) == 1 and (n.get("elidable") or k == "CXXConstructExpr"):
                return R(real[0])      # copy/move elision or implicit converting construction
            return "%s(%s)" % (n.get("t"), ", ".join(R(x) for x in real))
        if k == "CXXNewExpr":
            return "new %s%s" % (n.get("allocType"), "[%s]" % R(c[0]) if n.get("array") and c else "")
        if k == "CXXDeleteExpr":
            return "delete%s %s" % ("[]" if n.get("array") else "", R(c[0]))
        if k == "InitListExpr":
            return "{%s}" % ", ".join(R(x) for x in c)
        if k == "ReturnStmt":
            return "return %s" % (R(c[0]) if c else "")
        if k == "CXXThrowExpr":
            return "throw %s" % (R(c[0]) if c else "")
        if k == "DeclStmt" and getattr(self, "_effects", False):
            nm = getattr(self, "_names", None) or {}
            return "; ".join("(%s = %s)" % (nm.get(d.get("id"), d.get("name", "")), R(d["init"])) for d in n.get("decls", []) if d.get("init", -1) >= 0)
        if k == "CompoundStmt" and getattr(self, "_effects", False):
            return "CompoundStmt(%s)" % ", ".join(t for t in (R(x) for x in c) if t)
        if k == "DeclStmt":
            nm = getattr(self, "_names", None) or {}
            return "; ".join("%s %s%s" % (d.get("type", ""), nm.get(d.get("id"), d.get("name", "")),
                                          (" = " + R(d["init"])) if d.get("init", -1) >= 0 else "")
                             for d in n.get("decls", []))
        if k == "LambdaExpr":
            return "[lambda]"
        if c:
            return "%s(%s)" % (k, ", ".join(R(x) for x in c))
        return k

    def alpha(self, i, effects=False):
        """render with locals renamed v0, v1, ... by first occurrence and parameters renamed $k by position:
        insensitive to renaming of locals.  Returns (text, [decl ids in order of first occurrence]).
        effects=True renders what the statements do rather than how they are declared: a declaration without initialiser is
        left out (and does not count as an occurrence), a declaration with one reads `(v = init)` — so `T v; ... v = e;` and
        `... T v = e;` give the same text."""
        order = []
        self._effects = effects
        names = {}
        pidx = {p["id"]: k for k, p in enumerate(self.params)}
        for x in self.walk(i):
            n = self.nodes[x]
            if n["k"] == "DeclRefExpr":
                d = n["decl"]
                if d["kind"] == "ParmVar" and d["id"] in pidx:
                    names[d["id"]] = "$%d" % pidx[d["id"]]
                elif d["kind"] == "Var" and d["id"] not in names:
                    names[d["id"]] = "v%d" % len(order)
                    order.append(d["id"])
            elif n["k"] == "DeclStmt":
                for d in n["decls"]:
                    if effects and d.get("init", -1) < 0:
                        continue
                    if d.get("dk") == "Var" and d["id"] not in names:
                        names[d["id"]] = "v%d" % len(order)
                        order.append(d["id"])
        self._names = names
        try:
            t = self.render(i)
        finally:
            self._names = None
            self._effects = False
        return t.replace("this->", ""), order

    def var_name(self, vid):
        for x in self.walk():
            n = self.nodes[x]
            if n["k"] == "DeclRefExpr" and n["decl"].get("id") == vid:
                return n["decl"]["name"]
            if n["k"] == "DeclStmt":
                for d in n["decls"]:
                    if d.get("id") == vid:
                        return d["name"]
        return None

    # ---- CFG
    @property
    def blocks(self):
        if self._blocks is None:
            self._blocks = {b["id"]: b for b in self.cfg["blocks"]} if self.cfg else {}
        return self._blocks

    def succs(self, b):
        return [s for s in self.blocks[b]["succ"] if s >= 0]

    def preds_map(self):
        pm = {b: [] for b in self.blocks}
        for b in self.blocks:
            for s in self.succs(b):
                pm[s].append(b)
        return pm

    def reachable_blocks(self, start=None, avoid=()):
        start = self.cfg["entry"] if start is None else start
        seen = set()
        st = [start]
        while st:
            b = st.pop()
            if b in seen or b in avoid:
                continue
            seen.add(b)
            st.extend(self.succs(b))
        return seen

    def elem_nodes(self, b):
        return [e.get("n", -1) for e in self.blocks[b]["elems"]]

    def node_positions(self):
        """node id -> (block, index) for nodes that are CFG elements."""
        pos = {}
        for b, blk in self.blocks.items():
            for j, e in enumerate(blk["elems"]):
                if e.get("kind") == "stmt" and e["n"] not in pos:
                    pos[e["n"]] = (b, j)
        return pos

    def dominators(self):
        """block -> set of dominating blocks (iterative)."""
        entry = self.cfg["entry"]
        reach = self.reachable_blocks()
        pm = self.preds_map()
        dom = {b: set(reach) for b in reach}
        dom[entry] = {entry}
        changed = True
        order = sorted(reach, reverse=True)
        while changed:
            changed = False
            for b in order:
                if b == entry:
                    continue
                ps = [p for p in pm[b] if p in reach]
                if not ps:
                    continue
                nd = set.intersection(*(dom[p] for p in ps)) | {b}
                if nd != dom[b]:
                    dom[b] = nd
                    changed = True
        return dom


class Program:
    def __init__(self, units, errs=None):
        self.units = units
        self.errs = errs or {}
        self.functions = {}
        self.by_name = {}
        self.classes = {}
        self.decls = []
        self.globals = {}
        self.variants = {}
        order = sorted(units.items(), key=lambda kv: (kv[0].startswith("driver-noevaltmpl"), kv[0] != "driver", kv[0]))
        for uname, d in order:
            for fd in d["functions"]:
                f = Function(fd, uname)
                self.variants.setdefault(uname, {})[fd["usr"]] = f
                if fd["usr"] in self.functions:
                    continue
                self.functions[fd["usr"]] = f
                self.by_name.setdefault(fd["name"], []).append(f)
            for c in d["classes"]:
                self.classes.setdefault(c["qname"], c)
            for dc in d["decls"]:
                dc = dict(dc, unit=uname)
                self.decls.append(dc)
            for g in d["globals"]:
                self.globals.setdefault(g["qname"], g)
        self._maythrow = None
        if NORMALIZE_CALLS:
            self._inline_expression_functions()
        if NORMALIZE_FOLD:
            for _ in range(3):
                if not self._fold_new_helpers():
                    break
            # a const local that receives a folded helper's result names that result (N6 once more, now that the definition is in view)
            if NORMALIZE_ALIAS:
                for fm in self.variants.values():
                    for f in fm.values():
                        if f.d.get("foldedHelpers") and f.cfg:
                            f._parent = None
                            f._blocks = None
                            try:
                                f._inline_const_aliases()
                            except (KeyError, IndexError, ValueError):
                                pass

    # N11: a helper that is not in the function inventory of the pinned tree (psv/inventory.json) — i.e. one that a later refactoring
    #      extracted —, that is called from exactly one place and whose only `return` is its last statement, is folded back into its
    #      caller: its statements (parameters substituted) replace the call statement, and its CFG is spliced into the caller's.
    #      Functions of the inventory are never folded: the rules see today's tree as it is.
    _KEYED = ("cond", "then", "else", "init", "inc", "body", "lhs", "sub", "rangeInit", "loopVarStmt", "value", "tryBlock")

    def _fold_new_helpers(self):
        try:
            inv = set(INVENTORY()["functions"])
        except (OSError, ValueError, KeyError):
            return False
        changed = False
        for unit, fmap in self.variants.items():
            funcs = list(fmap.values())
            new = {g.usr: g for g in funcs if g.file.startswith(REPO) and g.kind in ("function", "method") and g.cfg and g.body is not None and g.body >= 0
                   and "%s:%s" % (os.path.basename(g.file), g.name) not in inv and not g.d.get("folded")
                   and not g.name.startswith(("operator", "~")) and g.name != (g.cls or "").split("::")[-1].split("<")[0]}
            lambdas = {g.usr: g for g in funcs if g.file.startswith(REPO) and g.kind == "lambda" and g.name == "operator()" and g.cfg and
                       g.body is not None and g.body >= 0 and not g.d.get("folded")}
            try:
                known_locals = INVENTORY()["locals"]
            except (OSError, ValueError, KeyError):
                known_locals = None
            if not new and not lambdas:
                continue
            # calls of a lambda held in a local that the pinned tree does not have: every call site gets its own copy
            if lambdas and known_locals is not None:
                for f in funcs:
                    if not f.file.startswith(REPO) or not f.cfg:
                        continue
                    for i in list(f.walk()):
                        n = f.nodes[i]
                        cal = n.get("callee")
                        if not cal or n["k"] != "CXXOperatorCallExpr" or n.get("opcall") != "()" or cal.get("usr") not in lambdas or len(n["ch"]) < 2:
                            continue
                        holder = f.strip(n["ch"][1])
                        if f.nodes[holder]["k"] != "DeclRefExpr" or f.nodes[holder]["decl"].get("kind") != "Var":
                            continue
                        if "%s:%s:%s" % (os.path.basename(f.file), f.name, f.nodes[holder]["decl"]["name"]) in known_locals:
                            continue
                        try:
                            if self._fold_one(f, i, lambdas[cal["usr"]]):
                                changed = True
                        except (KeyError, IndexError, ValueError):
                            pass
            if not new:
                continue
            sites = {}
            for f in funcs:
                if not f.file.startswith(REPO) or not f.cfg:
                    continue
                for i, cal in f.calls():
                    if cal and cal.get("usr") in new:
                        sites.setdefault(cal["usr"], []).append((f, i))
                for i in f.walk():
                    n = f.nodes[i]
                    if n["k"] == "DeclRefExpr" and (n["decl"].get("fn") or {}).get("usr") in new and not (
                            f.parent[i] >= 0 and "callee" in f.nodes[f.parent[f.parent[i]] if f.nodes[f.parent[i]]["k"] == "ImplicitCastExpr" else f.parent[i]]):
                        sites.setdefault(n["decl"]["fn"]["usr"], []).append((f, -1))       # address taken: not a plain call
            for usr, ss in sites.items():
                if any(ci < 0 for _f, ci in ss):
                    continue
                # every call site gets its own copy of the helper (N11; a helper called from several places included)
                g = new[usr]
                if any(f_ is g for f_, _ci in ss):
                    continue                    # recursive
                done = 0
                for f, ci in sorted(ss, key=lambda t: -t[1]):
                    try:
                        if self._fold_one(f, ci, g):
                            done += 1
                    except (KeyError, IndexError, ValueError):
                        pass
                if done:
                    g.d["folded"] = True
                    changed = True
                    if done == len(ss):
                        # every call is now part of its caller: the helper is no longer a function of the program
                        fmap.pop(g.usr, None)
                        if self.functions.get(g.usr) is g or all(g.usr not in fm for fm in self.variants.values()):
                            self.functions.pop(g.usr, None)
                            if g in self.by_name.get(g.name, []):
                                self.by_name[g.name].remove(g)
        return changed

    def _single_exit(self, g):
        """Tree of helper g (a function the pinned tree does not have) rewritten so that every `return` is the last statement executed on
        its path: `if (c) return a; rest` becomes `if (c) return a; else { rest }` (statements after an unconditional return are dead and
        leave the tree).  The CFG is left as it is — it already sends every return to the exit.  False when a return sits inside a loop, a
        switch or a try block."""
        if g.d.get("singleExit") is not None:
            return g.d["singleExit"]
        nodes = g.nodes

        def has_ret(i):
            return any(nodes[x]["k"] == "ReturnStmt" for x in g.walk(i))

        def always_returns(i):
            k = nodes[i]["k"]
            if k == "ReturnStmt":
                return True
            if k == "CompoundStmt":
                kids = [x for x in nodes[i]["ch"] if x >= 0]
                return bool(kids) and always_returns(kids[-1])
            if k == "IfStmt":
                e = nodes[i].get("else", -1)
                return e is not None and e >= 0 and always_returns(nodes[i]["then"]) and always_returns(e)
            return False

        def as_list(i):
            return [x for x in nodes[i]["ch"] if x >= 0] if nodes[i]["k"] == "CompoundStmt" else [i]

        def compound(kids, like):
            nodes.append(dict(k="CompoundStmt", ch=list(kids), loc=nodes[like]["loc"], f=nodes[like].get("f"), synthetic=True))
            return len(nodes) - 1

        def proc(kids):
            for idx, st in enumerate(kids):
                if not has_ret(st):
                    continue
                k = nodes[st]["k"]
                rest = kids[idx + 1:]
                if k == "ReturnStmt":
                    return kids[:idx + 1]
                if k == "CompoundStmt":
                    tail = proc(as_list(st) + rest)
                    return None if tail is None else kids[:idx] + tail
                if k != "IfStmt":
                    return None
                n = nodes[st]
                th, el = n["then"], n.get("else", -1)
                el = el if el is not None else -1
                th_all = always_returns(th)
                el_all = el >= 0 and always_returns(el)
                if (has_ret(th) and not th_all) or (el >= 0 and has_ret(el) and not el_all):
                    return None
                if th_all and el_all:
                    a, b = proc(as_list(th)), proc(as_list(el))
                elif th_all:
                    a, b = proc(as_list(th)), proc((as_list(el) if el >= 0 else []) + rest)
                else:
                    a, b = proc(as_list(th) + rest), proc(as_list(el))
                if a is None or b is None:
                    return None
                nt = a[0] if len(a) == 1 and nodes[a[0]]["k"] != "DeclStmt" else compound(a, st)
                ne = b[0] if len(b) == 1 and nodes[b[0]]["k"] != "DeclStmt" else compound(b, st)
                n["then"], n["else"] = nt, ne
                n["ch"] = [x for x in (n.get("cond", -1), nt, ne)]
                n["normalized"] = "single exit"
                return kids[:idx + 1]
            return kids
        ok = False
        gb = nodes[g.body] if g.body is not None and g.body >= 0 else None
        if gb is not None and gb["k"] == "CompoundStmt" and not any(nodes[x]["k"] in ("GotoStmt", "LabelStmt", "CXXTryStmt") for x in g.walk()):
            kids = proc([x for x in gb["ch"] if x >= 0])
            if kids is not None:
                gb["ch"] = kids
                g._parent = None
                ok = True
        g.d["singleExit"] = ok
        return ok

    def _copy_capture_changes(self, f, g):
        """lambda g of caller f captures a variable BY COPY that the caller changes after the lambda was created (an assignment, an
        increment, or its address handed out — `&error` to a cfitsio routine): inside the lambda the variable keeps its value at creation,
        so the lambda's body is not the caller's code and must not be folded into it."""
        for i, n in enumerate(f.nodes):
            if n["k"] == "LambdaExpr" and n.get("lambdaUsr") == g.usr and n.get("copyCaptures"):
                names = set(n["copyCaptures"])
                made = f.seq(i) if i in set(f.walk()) else -1
                for x in f.walk():
                    m = f.nodes[x]
                    tgt = None
                    if m["k"] in ("BinaryOperator", "CompoundAssignOperator") and m.get("op", "").endswith("=") and m["op"] not in ("==", "!=", "<=", ">="):
                        tgt = f.strip(m["ch"][0])
                    elif m["k"] == "UnaryOperator" and m.get("op") in ("++", "--", "&"):
                        tgt = f.strip(m["ch"][0])
                    if tgt is not None and f.nodes[tgt]["k"] == "DeclRefExpr" and f.nodes[tgt]["decl"].get("name") in names and \
                            f.nodes[tgt]["decl"].get("kind") in ("Var", "ParmVar") and (made < 0 or f.seq(x) > made):
                        return f.nodes[tgt]["decl"]["name"]
        return None

    def _fold_one(self, f, ci, g):
        TR = ("ImplicitCastExpr", "ParenExpr", "ExprWithCleanups", "MaterializeTemporaryExpr", "CXXBindTemporaryExpr")
        STMT_PARENTS = ("CompoundStmt", "IfStmt", "ForStmt", "WhileStmt", "DoStmt", "CaseStmt", "DefaultStmt", "LabelStmt")
        par = f.parent
        # --- the statement that holds the call
        def same_class(t1, t2):
            return bool(t1) and (t1 or "").replace("const ", "").replace("&", "").replace(" ", "") == (t2 or "").replace("const ", "").replace("&", "").replace(" ", "")
        top = ci
        while par[top] >= 0 and (f.nodes[par[top]]["k"] in TR or (
                # `T v = helper();` with T a class: the (elidable) copy/move construction of v from the returned temporary
                f.nodes[par[top]]["k"] == "CXXConstructExpr" and [c for c in f.nodes[par[top]]["ch"] if c >= 0] == [top] and
                same_class(f.nodes[par[top]].get("t"), f.nodes[ci].get("t")))):
            top = par[top]
        pk = f.nodes[par[top]]["k"] if par[top] >= 0 else None
        lhs_node = None       # caller lvalue that receives the result (node id) ...
        decl_target = None    # ... or the declaration it initialises
        returned = False      # ... or the caller returns it
        if pk in STMT_PARENTS:
            S = top
        elif pk == "BinaryOperator" and f.nodes[par[top]].get("op") == "=" and f.nodes[par[top]]["ch"][1] == top:
            S = par[top]
            while par[S] >= 0 and f.nodes[par[S]]["k"] in TR:
                S = par[S]
            if par[S] < 0 or f.nodes[par[S]]["k"] not in STMT_PARENTS:
                return False
            lhs_node = f.nodes[par[top]]["ch"][0]
        elif pk == "DeclStmt" and len(f.nodes[par[top]]["decls"]) == 1 and f.nodes[par[top]]["decls"][0].get("init") == top:
            S = par[top]
            decl_target = f.nodes[S]["decls"][0]
            if par[S] < 0 or f.nodes[par[S]]["k"] not in STMT_PARENTS:
                return False
        elif pk == "ReturnStmt" and par[par[top]] >= 0 and f.nodes[par[par[top]]]["k"] in STMT_PARENTS:
            S = par[top]
            returned = True
        else:
            return False
        SP = par[S]
        # --- the helper: statements; every return the last statement on its path (N11b)
        gb = g.nodes[g.body]
        if gb["k"] != "CompoundStmt":
            return False
        if not self._single_exit(g):
            return False
        kids = [x for x in gb["ch"] if x >= 0]
        rets = [x for x in g.walk() if g.nodes[x]["k"] == "ReturnStmt"]
        if any(g.nodes[x]["k"] in ("LambdaExpr", "CXXTryStmt", "GotoStmt", "LabelStmt") for x in g.walk()):
            return False
        multi = returned or len(rets) > 1 or bool(rets and (not kids or kids[-1] != rets[0]))
        if multi and (lhs_node is not None or decl_target is not None) and any(not g.ch(r) for r in rets):
            return False
        ret_expr = g.ch(rets[0])[0] if rets and not multi and g.ch(rets[0]) else -1
        if ret_expr >= 0:
            # `return local;` of class type: the implicit move construction of the result from the local
            r0 = g.strip(ret_expr)
            if g.nodes[r0]["k"] == "CXXConstructExpr" and len(g.ch(r0)) == 1 and g.nodes[g.strip(g.ch(r0)[0])]["k"] == "DeclRefExpr" and \
                    g.nodes[g.strip(g.ch(r0)[0])]["decl"].get("kind") == "Var" and same_class(g.nodes[r0].get("t"), g.nodes[g.strip(g.ch(r0)[0])].get("t")):
                ret_expr = g.strip(g.ch(r0)[0])
        if not multi and (lhs_node is not None or decl_target is not None) and ret_expr < 0:
            return False
        is_lambda = g.kind == "lambda"
        this_obj = None
        if is_lambda and self._copy_capture_changes(f, g):
            return False
        if is_lambda:
            args = [a for a in f.nodes[ci]["ch"][2:]]
            if f.nodes[ci]["k"] != "CXXOperatorCallExpr":
                return False
        elif g.kind == "method":
            args = [a for a in f.nodes[ci]["ch"][1:]]
            if f.nodes[ci]["k"] != "CXXMemberCallExpr" or not f.nodes[ci]["ch"] or f.nodes[ci]["ch"][0] < 0:
                return False
            me = f.strip(f.nodes[ci]["ch"][0])
            if f.nodes[me]["k"] != "MemberExpr" or not f.ch(me):
                return False
            obj = f.strip(f.ch(me)[0])
            if f.nodes[obj]["k"] == "CXXThisExpr":
                this_obj = None                 # the helper's `this` is the caller's
            elif not f.nodes[me].get("arrow") and f.nodes[obj]["k"] == "DeclRefExpr":
                this_obj = obj                  # `other.helper()`: the helper's this->m is other.m
            else:
                return False
        else:
            args = [a for a in f.nodes[ci]["ch"][1:]]
            if f.nodes[ci]["k"] != "CallExpr":
                return False
        if len(args) != len(g.params) or any(a < 0 for a in args):
            return False
        # --- parameters: read-only ones are replaced by the argument; one that the helper modifies must be the variable that also
        #     receives the result (`x = helper(.., x, ..)` with `return x_param;`)
        written = set()
        for x in g.walk():
            n = g.nodes[x]
            tgt = None
            if n["k"] in ("BinaryOperator", "CompoundAssignOperator") and n.get("op", "").endswith("=") and n["op"] not in ("==", "!=", "<=", ">="):
                tgt = g.strip(n["ch"][0])
            elif n["k"] == "UnaryOperator" and n.get("op") in ("++", "--", "&"):
                tgt = g.strip(n["ch"][0])
            if tgt is not None and g.nodes[tgt]["k"] == "DeclRefExpr" and g.nodes[tgt]["decl"].get("kind") == "ParmVar":
                written.add(g.nodes[tgt]["decl"]["id"])
        pidx = {p_["id"]: k for k, p_ in enumerate(g.params)}
        alias = {}
        if multi and written:
            return False
        for pid_ in written:
            k = pidx.get(pid_)
            if k is None:
                return False
            a = f.strip(args[k])
            re_ = g.strip(ret_expr) if ret_expr >= 0 else -1
            l = f.strip(lhs_node) if lhs_node is not None else -1
            if not (f.nodes[a]["k"] == "DeclRefExpr" and l >= 0 and f.nodes[l]["k"] == "DeclRefExpr" and
                    f.nodes[a]["decl"].get("id") == f.nodes[l]["decl"].get("id") and re_ >= 0 and
                    g.nodes[re_]["k"] == "DeclRefExpr" and g.nodes[re_]["decl"].get("id") == pid_):
                return False
            alias[pid_] = dict(f.nodes[a]["decl"])

        def pure(a):
            return not any(f.nodes[x]["k"] in ("CompoundAssignOperator", "CXXNewExpr", "CXXDeleteExpr", "CXXThrowExpr", "LambdaExpr") or
                           (f.nodes[x]["k"] == "BinaryOperator" and f.nodes[x].get("op") == "=") or
                           (f.nodes[x]["k"] == "UnaryOperator" and f.nodes[x].get("op") in ("++", "--")) or
                           "callee" in f.nodes[x] for x in f.walk(a))
        if not all(pure(a) or f._pure_names(a) is not None for k, a in enumerate(args) if g.params[k]["id"] not in alias):
            return False
        # --- CFG position of the call statement: one block, contiguous elements
        sub = set(f.walk(S))
        where = [(b["id"], j) for b in f.cfg["blocks"] for j, e in enumerate(b["elems"]) if e.get("kind") == "stmt" and e.get("n") in sub]
        if not where or len(set(b for b, _ in where)) != 1:
            return False
        bid = where[0][0]
        js = sorted(j for _, j in where)
        if js != list(range(js[0], js[-1] + 1)):
            return False
        # --- a lambda's captured variables are the caller's (matched by name); its own parameters and locals keep separate identities
        own_ids = {p_["id"] for p_ in g.params} | {d["id"] for n in g.nodes if n["k"] == "DeclStmt" for d in n.get("decls", []) if "id" in d}
        byname = {}
        if is_lambda:
            byname = {p_["name"]: dict(kind="ParmVar", name=p_["name"], id=p_["id"], type=p_.get("type", "")) for p_ in f.params}
            for n in f.nodes:
                if n["k"] == "DeclRefExpr" and n["decl"].get("kind") in ("Var", "ParmVar"):
                    byname.setdefault(n["decl"]["name"], n["decl"])
                elif n["k"] == "DeclStmt":
                    for dd in n.get("decls", []):
                        if dd.get("dk") == "Var":
                            byname.setdefault(dd["name"], dict(kind="Var", name=dd["name"], id=dd["id"], type=dd.get("type", "")))
            for n in g.nodes:
                if n["k"] == "DeclRefExpr" and n["decl"].get("kind") in ("Var", "ParmVar") and n["decl"].get("id") not in own_ids and n["decl"].get("name") not in byname:
                    return False
            if any(n["k"] == "CXXThisExpr" for n in g.nodes) and f.cls is None:
                return False
        # --- copy the helper's nodes
        off = len(f.nodes)
        idshift = 100000 + off
        for x, n in enumerate(g.nodes):
            nn = dict(n)
            nn["ch"] = [c + off if c >= 0 else c for c in n["ch"]]
            for key in self._KEYED:
                if isinstance(nn.get(key), int) and nn[key] >= 0:
                    nn[key] = nn[key] + off
            if "decls" in nn:
                nn["decls"] = [dict(d, **({"init": d["init"] + off} if d.get("init", -1) >= 0 else {}),
                                    **({"id": d["id"] + idshift} if "id" in d else {}),
                                    **({"extents": [e + off if e >= 0 else e for e in d["extents"]]} if d.get("extents") else {})) for d in nn["decls"]]
            if nn["k"] == "DeclRefExpr" and nn["decl"].get("kind") in ("Var", "ParmVar"):
                if is_lambda and nn["decl"].get("id") not in own_ids and nn["decl"].get("name") in byname:
                    nn["decl"] = dict(byname[nn["decl"]["name"]])          # a captured variable is the caller's variable
                else:
                    nn["decl"] = dict(nn["decl"], id=nn["decl"]["id"] + idshift)
            nn["origLoc"] = n.get("loc")
            nn["loc"] = f.nodes[S]["loc"]
            nn["f"] = f.nodes[S].get("f")
            nn["foldedFrom"] = g.name
            f.nodes.append(nn)
        used = set()
        for x, n in enumerate(g.nodes):
            if n["k"] == "DeclRefExpr" and n["decl"].get("kind") == "ParmVar" and n["decl"].get("id") in pidx:
                nn = f.nodes[x + off]
                pid_ = n["decl"]["id"]
                if pid_ in alias:
                    nn["decl"] = dict(alias[pid_])
                else:
                    k = pidx[pid_]
                    nn["k"] = "ParenExpr"
                    nn["argOf"] = g.params[k]["name"]
                    nn["ch"] = [args[k] if k not in used else f._copy_subtree(args[k])]
                    used.add(k)
        if this_obj is not None:
            # `other.helper()`: this->m in the helper is other.m
            for x, n in enumerate(g.nodes):
                if n["k"] == "MemberExpr" and n.get("arrow") and n["ch"] and g.nodes[g.strip(n["ch"][0])]["k"] == "CXXThisExpr":
                    nn = f.nodes[x + off]
                    nn["arrow"] = False
                    nn["ch"] = [f._copy_subtree(this_obj)]
            if any(f.nodes[x + off]["k"] == "CXXThisExpr" and not any(
                    g.nodes[a]["k"] == "MemberExpr" for a in [g.parent[x]] + ([g.parent[g.parent[x]]] if g.parent[x] >= 0 else []) if a >= 0)
                    for x, n in enumerate(g.nodes) if n["k"] == "CXXThisExpr" and x in set(g.walk())):
                del f.nodes[off:]
                f._parent = None
                return False
        f.nodes[g.body + off]["ch"] = []          # the copy of the helper's own body statement is not part of the tree (its statements get a new parent)
        body_kids = [k + off for k in kids if multi or not (rets and k == rets[0])]
        extra_elems = []
        pre_elems = []
        if multi and not returned:
            # every `return e` of the helper stores e where the caller wants the result (or is the end of the path, for a call statement)
            first = True
            if decl_target is not None:
                f.nodes[S]["ch"] = [x for x in f.nodes[S]["ch"] if x != decl_target.get("init")]
                decl_target["init"] = -1
                body_kids = [S] + body_kids
                pre_elems = [S]
            for r in rets:
                rn = f.nodes[r + off]
                e = g.ch(r)[0] + off if g.ch(r) else -1
                if lhs_node is not None:
                    l = lhs_node if first else f._copy_subtree(lhs_node)
                    first = False
                    rn.update(dict(k="BinaryOperator", op="=", ch=[l, e], t=f.nodes[lhs_node].get("t"), synthetic=True))
                elif decl_target is not None:
                    f.nodes.append(dict(k="DeclRefExpr", ch=[], t=decl_target.get("type", ""), loc=f.nodes[S]["loc"], f=f.nodes[S].get("f"), synthetic=True,
                                        decl=dict(kind="Var", name=decl_target["name"], id=decl_target["id"], type=decl_target.get("type", ""))))
                    rn.update(dict(k="BinaryOperator", op="=", ch=[len(f.nodes) - 1, e], t=decl_target.get("type", ""), synthetic=True))
                elif e >= 0:
                    rn.update(dict(k="ParenExpr", ch=[e], synthetic=True))
                else:
                    rn.update(dict(k="NullStmt", ch=[], synthetic=True))
                rn.pop("value", None)
        # --- the helper returns one of its own locals into a variable of the caller: that local IS the caller's variable (no copy)
        result_aliased = False
        if not multi and ret_expr >= 0 and not alias and g.nodes[g.strip(ret_expr)]["k"] == "DeclRefExpr" and \
                g.nodes[g.strip(ret_expr)]["decl"].get("kind") == "Var":
            vid = g.nodes[g.strip(ret_expr)]["decl"]["id"]
            vdecl = [(x, d) for x in g.walk() if g.nodes[x]["k"] == "DeclStmt" for d in g.nodes[x].get("decls", []) if d.get("id") == vid]
            xdecl = None
            if lhs_node is not None and f.nodes[f.strip(lhs_node, casts=False)]["k"] == "DeclRefExpr" and \
                    f.nodes[f.strip(lhs_node, casts=False)]["decl"].get("kind") in ("Var", "ParmVar"):
                xdecl = dict(f.nodes[f.strip(lhs_node, casts=False)]["decl"])
            elif decl_target is not None and decl_target.get("dk") == "Var":
                xdecl = dict(kind="Var", name=decl_target["name"], id=decl_target["id"], type=decl_target.get("type", ""))
            arg_ids = {f.nodes[y]["decl"].get("id") for a in args for y in f.walk(a) if f.nodes[y]["k"] == "DeclRefExpr"}
            same_type = lambda a, b: (a or "").replace("const ", "").replace(" ", "") == (b or "").replace("const ", "").replace(" ", "")   # noqa: E731
            if xdecl is not None and len(vdecl) == 1 and len(g.nodes[vdecl[0][0]]["decls"]) == 1 and xdecl["id"] not in arg_ids and \
                    not vdecl[0][1].get("static") and same_type(vdecl[0][1].get("type"), xdecl.get("type")):
                for x, n in enumerate(g.nodes):
                    if n["k"] == "DeclRefExpr" and n["decl"].get("id") == vid and n["decl"].get("kind") == "Var":
                        f.nodes[x + off]["decl"] = dict(xdecl)
                dn = f.nodes[vdecl[0][0] + off]
                init = vdecl[0][1].get("init", -1)
                keep_decl = decl_target is not None and vdecl[0][0] in kids
                if keep_decl:
                    # `T v = helper();` and the helper declares the local it returns at the top of its body: that declaration IS the
                    # caller's declaration of v (the scope of v starts a few statements earlier, inside the folded body, and ends where it did)
                    dn["decls"] = [dict(dn["decls"][0], id=decl_target["id"], name=decl_target["name"])]
                    f.nodes[S]["ch"] = []
                    result_aliased = True
                elif init is not None and init >= 0:
                    f.nodes.append(dict(k="DeclRefExpr", ch=[], t=xdecl.get("type", ""), loc=f.nodes[S]["loc"], f=f.nodes[S].get("f"), synthetic=True, decl=dict(xdecl)))
                    dn.update(dict(k="BinaryOperator", op="=", ch=[len(f.nodes) - 1, init + off], t=xdecl.get("type", ""), synthetic=True))
                else:
                    dn.update(dict(k="NullStmt", ch=[], synthetic=True))
                if not keep_decl:
                    dn.pop("decls", None)
                if decl_target is not None and not keep_decl:
                    f.nodes[S]["ch"] = [x for x in f.nodes[S]["ch"] if x != decl_target.get("init")]
                    decl_target["init"] = -1
                    body_kids = [S] + body_kids
                    pre_elems = [S]
                result_aliased = True
        if not multi and not result_aliased and ret_expr >= 0 and not (alias and g.nodes[g.strip(ret_expr)]["decl"].get("id") in alias if g.nodes[g.strip(ret_expr)]["k"] == "DeclRefExpr" else False):
            loc = dict(loc=f.nodes[S]["loc"], f=f.nodes[S].get("f"))
            if lhs_node is not None:
                f.nodes.append(dict(k="BinaryOperator", op="=", ch=[lhs_node, ret_expr + off], t=f.nodes[lhs_node].get("t"), synthetic=True, **loc))
                body_kids.append(len(f.nodes) - 1)
                extra_elems.append(len(f.nodes) - 1)
            elif decl_target is not None:
                f.nodes[S]["ch"] = [(ret_expr + off) if x == decl_target.get("init") else x for x in f.nodes[S]["ch"]]
                decl_target["init"] = ret_expr + off
                body_kids.append(S)
                extra_elems.append(S)
        spn = f.nodes[SP]
        if spn["k"] == "CompoundStmt":
            # the helper's statements take the place of the call statement in the enclosing block
            spn["ch"] = [y for x in spn["ch"] for y in (body_kids if x == S else [x])]
        else:
            f.nodes.append(dict(k="CompoundStmt", ch=body_kids, loc=f.nodes[S]["loc"], f=f.nodes[S].get("f"), synthetic=True, foldedFrom=g.name))
            C_ = len(f.nodes) - 1
            spn["ch"] = [C_ if x == S else x for x in spn["ch"]]
            for key in self._KEYED:
                if spn.get(key) == S:
                    spn[key] = C_
        # --- splice the CFGs
        blocks = f.cfg["blocks"]
        B = next(b for b in blocks if b["id"] == bid)
        boff = max(b["id"] for b in blocks) + 1
        gexit, gentry = g.cfg["exit"], g.cfg["entry"]
        B2 = dict(id=boff + max(b["id"] for b in g.cfg["blocks"]) + 1, elems=[dict(kind="stmt", n=x) for x in extra_elems] + B["elems"][js[-1] + 1:],
                  succ=B["succ"], noReturn=B.get("noReturn", False))
        for key in ("term", "termCond"):
            if key in B:
                B2[key] = B.pop(key)
        B["elems"] = B["elems"][:js[0]] + [dict(kind="stmt", n=x) for x in pre_elems]
        B["succ"] = [gentry + boff]
        B["noReturn"] = False
        drop = set()
        if rets and not multi:
            drop = {rets[0] + off}
            if ret_expr >= 0 and g.nodes[g.strip(ret_expr)]["k"] == "DeclRefExpr":
                drop |= {x + off for x in g.walk(ret_expr)}
        for gbk in g.cfg["blocks"]:
            if gbk["id"] == gexit:
                continue
            # a block of the helper that ends in `throw` (or in a call that does not return) leaves the caller as well: its edge to the
            # helper's exit becomes an edge to the caller's exit, not to the statements after the call
            leaves = gbk.get("noReturn", False) or any(e.get("kind") == "stmt" and e.get("n", -1) >= 0 and g.nodes[e["n"]]["k"] == "CXXThrowExpr" for e in gbk["elems"])
            out_to = f.cfg["exit"] if leaves else B2["id"]
            nb = dict(id=gbk["id"] + boff, elems=[dict(e, n=e["n"] + off) if e.get("kind") == "stmt" and e.get("n", -1) >= 0 else dict(e) for e in gbk["elems"]
                                                  if not (e.get("kind") == "stmt" and e.get("n", -1) + off in drop)],
                      succ=[(out_to if s_ == gexit else s_ + boff) if s_ >= 0 else s_ for s_ in gbk["succ"]], noReturn=gbk.get("noReturn", False))
            for key in ("term", "termCond"):
                if key in gbk and gbk[key] is not None and gbk[key] >= 0:
                    nb[key] = gbk[key] + off
            blocks.append(nb)
        blocks.append(B2)
        f.nodes[ci]["ch"] = []          # the call itself has left the tree: its arguments belong to the folded body now
        f._blocks = None
        f._parent = None
        f.d.setdefault("foldedHelpers", []).append(g.name)
        return True

    # N7: a call to a function of the repository whose whole body is `return <expression>;` (a free or static function, or a lambda that
    #     the caller defines) is replaced by that expression with the arguments substituted — provided the arguments have no side
    #     effects.  The copied calls are entered into the caller's CFG block in front of the original call element, so analyses that
    #     walk CFG elements still see them.
    def _inline_expression_functions(self):
        cands = {}
        everything = [f for v in self.variants.values() for f in v.values()]
        for g in everything:
            if not g.file.startswith(REPO) or g.body is None or g.body < 0:
                continue
            b = g.nodes[g.body]
            kids = [x for x in b.get("ch", []) if x >= 0] if b["k"] == "CompoundStmt" else []
            # only helpers private to one translation unit or one function: a lambda, a static function, one in an anonymous namespace
            # (an exported function is an interface: rules name it, and its callers are not rewritten)
            is_new_helper = False
            try:
                is_new_helper = g.kind == "function" and "%s:%s" % (os.path.basename(g.file), g.name) not in INVENTORY()["functions"]
            except (OSError, ValueError, KeyError):
                pass
            if not (g.kind == "lambda" or is_new_helper or (g.kind == "function" and (g.d.get("static") or re.match(r"c:[^@]+\.(c|cc|cpp|cxx|h|hpp)@", g.usr)))):
                continue
            if len(kids) == 2 and g.nodes[kids[0]]["k"] == "IfStmt" and g.nodes[kids[1]]["k"] == "ReturnStmt" and g.ch(kids[1]) and \
                    g.nodes[kids[0]].get("else", -1) in (-1, None) and not g.d.get("singleExit") and is_new_helper and \
                    not any((g.nodes[x].get("callee") or {}).get("usr") == g.usr for x in g.walk()):
                # N7b: `if (c) return A; return B;` is `return c ? A : B;`
                th = g.nodes[kids[0]]["then"]
                th = g.ch(th)[0] if g.nodes[th]["k"] == "CompoundStmt" and len(g.ch(th)) == 1 else th
                if g.nodes[th]["k"] == "ReturnStmt" and g.ch(th):
                    c_, a_, b_ = g.nodes[kids[0]]["cond"], g.ch(th)[0], g.ch(kids[1])[0]
                    g.nodes.append(dict(k="ConditionalOperator", ch=[c_, a_, b_], t=g.nodes[b_].get("t", ""), loc=g.nodes[kids[1]]["loc"], f=g.nodes[kids[1]].get("f"), synthetic=True))
                    cn = len(g.nodes) - 1
                    g.nodes.append(dict(k="ReturnStmt", value=cn, ch=[cn], loc=g.nodes[kids[1]]["loc"], f=g.nodes[kids[1]].get("f"), synthetic=True))
                    rn = len(g.nodes) - 1
                    b["ch"] = [rn]
                    g._parent = None
                    g.d["conditionalReturn"] = True
                    kids = [rn]
            if len(kids) != 1 or g.nodes[kids[0]]["k"] != "ReturnStmt" or not g.ch(kids[0]):
                continue
            expr = g.ch(kids[0])[0]
            if any(g.nodes[x]["k"] in ("LambdaExpr", "CXXThisExpr", "CXXNewExpr", "CXXDeleteExpr", "CXXThrowExpr", "StmtExpr") for x in g.walk(expr)):
                continue
            if any((g.nodes[x].get("callee") or {}).get("usr") == g.usr for x in g.walk(expr)):
                continue                      # recursive
            cands.setdefault((g.unit, g.usr), (g, expr))
        if not cands:
            return
        pure_kinds_bad = ("CompoundAssignOperator", "CXXNewExpr", "CXXDeleteExpr", "CXXThrowExpr", "LambdaExpr", "StmtExpr")
        for f in everything:
            if not f.file.startswith(REPO):
                continue
            changed = False
            for i in list(f.walk()):
                n = f.nodes[i]
                cal = n.get("callee")
                if not cal or (f.unit, cal.get("usr")) not in cands:
                    continue
                g, expr = cands[(f.unit, cal["usr"])]
                if g is f:
                    continue
                if g.kind == "lambda" and self._copy_capture_changes(f, g):
                    continue
                if n["k"] == "CallExpr":
                    args = n["ch"][1:]
                elif n["k"] == "CXXOperatorCallExpr" and n.get("opcall") == "()" and g.kind == "lambda":
                    args = n["ch"][2:]
                else:
                    continue
                if len(args) != len(g.params) or any(a < 0 for a in args):
                    continue

                def pure(a):
                    for x in f.walk(a):
                        m = f.nodes[x]
                        if m["k"] in pure_kinds_bad or (m["k"] == "BinaryOperator" and m.get("op") == "=") or \
                                (m["k"] == "UnaryOperator" and m.get("op") in ("++", "--")):
                            return False
                    return True
                if not all(pure(a) for a in args):
                    continue
                pid = {p["id"]: k for k, p in enumerate(g.params)}
                # decls of the caller by name (for variables a lambda captures)
                byname = {p["name"]: dict(kind="ParmVar", name=p["name"], id=p["id"], type=p.get("type", "")) for p in f.params}
                for x in f.walk():
                    m = f.nodes[x]
                    if m["k"] == "DeclRefExpr" and m["decl"].get("kind") in ("Var", "ParmVar"):
                        byname.setdefault(m["decl"]["name"], m["decl"])
                    elif m["k"] == "DeclStmt":
                        for dd in m["decls"]:
                            if dd.get("dk") == "Var":
                                byname.setdefault(dd["name"], dict(kind="Var", name=dd["name"], id=dd["id"], type=dd.get("type", "")))
                ok = True
                m_ = {}
                new_nodes = []
                used = set()
                base = len(f.nodes)
                order = list(g.walk(expr))
                for x in order:
                    m_[x] = base + len(new_nodes)
                    new_nodes.append(dict(g.nodes[x]))
                for x in order:
                    nn = new_nodes[m_[x] - base]
                    nn["ch"] = [m_.get(c, -1) for c in nn["ch"]]
                    for key in ("cond", "then", "else", "init", "inc", "body"):
                        if key in nn and isinstance(nn[key], int):
                            nn[key] = m_.get(nn[key], -1)
                    nn["loc"] = n["loc"]
                    nn["f"] = n.get("f")
                    nn["inlinedFrom"] = g.name
                    if nn["k"] == "DeclRefExpr" and nn["decl"].get("kind") in ("Var", "ParmVar"):
                        d = nn["decl"]
                        if d.get("kind") == "ParmVar" and d.get("id") in pid and g.params[pid[d["id"]]]["name"] == d.get("name"):
                            k = pid[d["id"]]
                            nn["k"] = "ParenExpr"
                            nn["argOf"] = g.params[k]["name"]
                            nn["ch"] = [args[k]] if k not in used else [("copy", args[k])]
                            used.add(k)
                        elif g.kind == "lambda" and d.get("name") in byname:
                            nn["decl"] = dict(byname[d["name"]])
                        else:
                            ok = False
                if not ok:
                    continue
                f.nodes.extend(new_nodes)
                for nn in new_nodes:
                    if nn["ch"] and isinstance(nn["ch"][0], tuple):
                        nn["ch"] = [f._copy_subtree(nn["ch"][0][1])]
                root = m_[expr]
                # constant values show through the substituted parameters (bottom-up over the copied nodes)
                for k in range(len(new_nodes) - 1, -1, -1):
                    nn = new_nodes[k]
                    if "cv" not in nn and nn["k"] in TRANSPARENT and nn["ch"] and nn["ch"][0] >= 0 and "cv" in f.nodes[nn["ch"][0]]:
                        nn["cv"] = f.nodes[nn["ch"][0]]["cv"]
                n["inlinedCall"] = cal["name"]
                n["k"] = "ParenExpr"
                n["ch"] = [root]
                n.pop("callee", None)
                n.pop("opcall", None)
                # CFG: the copied calls become elements in front of the original call element
                if f.cfg:
                    for blk in f.cfg["blocks"]:
                        for j, e in enumerate(blk["elems"]):
                            if e.get("kind") == "stmt" and e.get("n") == i:
                                extra = [dict(kind="stmt", n=base + k) for k, nn in reversed(list(enumerate(new_nodes)))
                                         if "callee" in nn or nn["k"] in ("CXXOperatorCallExpr", "CXXMemberCallExpr", "CallExpr", "ConditionalOperator", "BinaryOperator")]
                                blk["elems"][j:j] = extra
                                break
                changed = True
            if changed:
                f._parent = None
                f._blocks = None

    def fns(self, name=None, qname_contains=None, unit=None, file_endswith=None):
        out = []
        src = self.by_name.get(name, []) if name is not None else [f for fl in self.by_name.values() for f in fl]
        for f in src:
            if qname_contains and qname_contains not in f.qname:
                continue
            if unit is not None:
                if callable(unit):
                    if not unit(f.unit):
                        continue
                elif f.unit != unit:
                    continue
            if file_endswith and not f.file.endswith(file_endswith):
                continue
            out.append(f)
        return out

    def one(self, name, **kw):
        fs = self.fns(name, **kw)
        # de-duplicate by usr
        u = {}
        for f in fs:
            u.setdefault(f.usr, f)
        if len(u) != 1:
            raise AnalysisBroken("anchor function %s %s: expected exactly one definition, found %d (%s)" %
                                 (name, kw, len(u), ", ".join(x.qname for x in u.values())[:300]))
        return list(u.values())[0]

    # ---- effects
    NOTHROW_TABLE = {
        # libstdc++ algorithms on raw pointers / trivially copyable ranges: no user code runs, nothing allocates
        "std::copy": "element-wise assignment of trivially copyable values",
        "std::copy_n": "element-wise assignment of trivially copyable values",
        "std::fill": "element-wise assignment of trivially copyable values",
        "std::fill_n": "element-wise assignment of trivially copyable values",
        "std::reverse": "swaps of trivially copyable values",
        "std::partial_sum": "arithmetic on integers through std::multiplies",
        "std::accumulate": "arithmetic on integers through std::multiplies",
        "std::equal": "comparison of scalars",
        "std::max_element": "comparison of scalars",
        "std::min_element": "comparison of scalars",
        "std::is_sorted": "comparison of scalars",
        "std::binary_search": "comparison of scalars", "std::lower_bound": "comparison of scalars", "std::upper_bound": "comparison of scalars",
        "std::find": "comparison of scalars", "std::count": "comparison of scalars",
        "std::nextafter": "arith",
        "std::max": "comparison of scalars",
        "std::min": "comparison of scalars",
        "std::swap": "move of scalars / pointers / std::allocator",
        "std::move": "cast",
        "std::forward": "cast",
        "std::make_pair": "pair of scalars",
        "std::isupper": "C library classification", "std::isdigit": "C library classification",
        "std::islower": "C library classification",
        "std::multiplies": "functor construction",
        "std::unique_ptr::get": "observer", "std::unique_ptr::operator[]": "observer",
        "std::unique_ptr::release": "observer", "std::unique_ptr::operator->": "observer",
        "std::unique_ptr::operator*": "observer", "std::unique_ptr::unique_ptr": "takes ownership, noexcept in the standard",
        "std::vector::size": "observer", "std::vector::data": "observer", "std::vector::operator[]": "observer",
        "std::vector::begin": "observer", "std::vector::end": "observer", "std::vector::rbegin": "observer",
        "std::vector::rend": "observer", "std::vector::empty": "observer", "std::vector::front": "observer",
        "std::vector::back": "observer",
        "std::reverse_iterator": "iterator arithmetic", "__gnu_cxx::__normal_iterator": "iterator arithmetic",
        "std::pair::pair": "pair of scalars",
        "std::isfinite": "classification", "std::isnan": "classification", "std::abs": "arith",
        "std::floor": "arith", "std::pow": "arith", "std::sqrt": "arith", "std::log": "arith", "std::exp": "arith",
        "std::numeric_limits": "constants",
        "std::basic_string::c_str": "observer", "std::basic_string::size": "observer",
        "std::basic_string::begin": "observer", "std::basic_string::end": "observer",
        "std::basic_string::empty": "observer",
        "std::basic_ios::fail": "observer", "std::ios_base::fail": "observer",
        "std::exception::what": "observer",
        "std::iterator_traits": "types",
        "std::array::operator[]": "observer", "std::array::begin": "observer", "std::array::end": "observer",
        "std::array::size": "observer",
    }

    @staticmethod
    def _norm_std(q):
        # strip template argument lists: std::vector<long>::size -> std::vector::size
        out = []
        depth = 0
        for ch in q:
            if ch == "<":
                depth += 1
            elif ch == ">":
                depth -= 1
            elif depth == 0:
                out.append(ch)
        s = "".join(out)
        s = s.replace("std::__cxx11::", "std::")
        return s

    def callee_nothrow_external(self, cal):
        """Callee without an analysed body: is it non-throwing?"""
        if cal is None:
            return False
        if cal.get("externC") or cal.get("noexcept"):
            return True
        q = self._norm_std(cal["qname"])
        if q in self.NOTHROW_TABLE:
            return True
        # iterator helper classes: every member
        for pre in ("std::reverse_iterator", "__gnu_cxx::__normal_iterator", "std::numeric_limits",
                    "std::multiplies"):
            if q.startswith(pre):
                return True
        if q in ("std::allocator::allocator", "std::allocator::~allocator", "std::allocator::operator=",
                 "std::allocator::deallocate", "std::allocator_traits::deallocate", "std::__new_allocator::deallocate"):
            return True     # construction/copy of the stateless allocator and deallocation do not raise; allocate does
        if cal.get("mkind") == "dtor":
            return True
        return False

    def node_may_throw(self, f, i, maythrow_set):
        """Does evaluating node i itself (not its children) possibly raise?  Returns reason or None."""
        n = f.nodes[i]
        k = n["k"]
        if k == "CXXThrowExpr":
            return "throw"
        if k == "CXXNewExpr":
            if not n.get("nothrowNew") and n.get("placementArgs", 0) == 0:
                return "operator new"
            return None
        if k == "CXXDynamicCastExpr" and n.get("t", "").endswith("&"):
            return "dynamic_cast<T&>"
        if "callee" in n:
            cal = n["callee"]
            if n["k"] in ("CXXConstructExpr", "CXXTemporaryObjectExpr") and n.get("elidable"):
                return None
            tgt = self.functions.get(cal["usr"])
            if tgt is not None:
                if tgt.noexcept:
                    return None
                return ("calls %s" % cal["qname"]) if cal["usr"] in maythrow_set else None
            if self.callee_nothrow_external(cal):
                return None
            # trivial/implicit special members of scalars-only classes
            if cal.get("mkind") in ("ctor",) and cal["qname"].startswith(("photospline::detail::array_view", "photospline::detail::buffer2d")):
                return None
            return "calls %s (no body analysed, not noexcept)" % cal["qname"]
        if n.get("indirect"):
            ct = n.get("calleeType", "")
            if "noexcept" in ct:
                return None
            # C function pointers in C units
            if f.file.endswith(".c"):
                return None
            return "indirect call through %s" % ct
        return None

    def maythrow(self):
        """least fixpoint: set of usr of functions that may exit by exception."""
        if self._maythrow is not None:
            return self._maythrow
        mt = set()
        fl = list(self.functions.values())
        # local contribution cache
        changed = True
        while changed:
            changed = False
            for f in fl:
                if f.usr in mt or f.noexcept:
                    continue
                if f.file.endswith(".c"):
                    continue
                for i in f.walk():
                    r = self.node_may_throw(f, i, mt)
                    if not r:
                        continue
                    if self.contained(f, i, mt):
                        continue
                    mt.add(f.usr)
                    changed = True
                    break
        self._maythrow = mt
        return mt

    def handler_swallows(self, f, h, mt):
        """catch handler h never lets an exception out (no rethrow, no uncontained throwing call)."""
        for i in f.walk(h):
            if i == h:
                continue
            if self.node_may_throw(f, i, mt) and not self.contained(f, i, mt, stop=h):
                return False
        return True

    def contained(self, f, i, mt, stop=None):
        """node i lies in the try-block of a try (nested inside `stop` if given) whose
        catch-all handler swallows."""
        for (t, in_try, _h) in f.enclosing_try(i):
            if stop is not None and stop not in set(f.ancestors(t)):
                break
            if not in_try:
                continue
            for h in f.nodes[t]["handlers"]:
                if f.nodes[h].get("catchAll") and self.handler_swallows(f, h, mt):
                    return True
        return False


def load(units=None, tier="quick", repo=None, extra_units=None):
    repo = repo or REPO
    coverage_check(repo)
    if units is None:
        units = QUICK_UNITS if tier == "quick" else ALL_UNITS
    data, errs = extract(units, repo=repo, extra_units=extra_units, tier=tier)
    return Program(data, errs)


# --------------------------------------------------------------------------
# small polynomial normal form for integer index/size expressions
# --------------------------------------------------------------------------
class Poly:
    """sum of coeff * product(atoms); atoms are strings."""

    def __init__(self, terms=None):
        self.t = {k: v for k, v in (terms or {}).items() if v != 0}

    @staticmethod
    def const(c):
        return Poly({(): c})

    @staticmethod
    def atom(a):
        return Poly({(a,): 1})

    def __add__(self, o):
        r = dict(self.t)
        for k, v in o.t.items():
            r[k] = r.get(k, 0) + v
        return Poly(r)

    def __neg__(self):
        return Poly({k: -v for k, v in self.t.items()})

    def __sub__(self, o):
        return self + (-o)

    def __mul__(self, o):
        r = {}
        for k1, v1 in self.t.items():
            for k2, v2 in o.t.items():
                k = tuple(sorted(k1 + k2))
                r[k] = r.get(k, 0) + v1 * v2
        return Poly(r)

    def __eq__(self, o):
        return isinstance(o, Poly) and self.t == o.t

    def __hash__(self):
        return hash(tuple(sorted(self.t.items())))

    def is_const(self):
        return all(k == () for k in self.t)

    def const_value(self):
        return self.t.get((), 0)

    def atoms(self):
        s = set()
        for k in self.t:
            s.update(k)
        return s

    def subst(self, m):
        """m: atom -> Poly"""
        r = Poly()
        for k, v in self.t.items():
            term = Poly.const(v)
            for a in k:
                term = term * (m[a] if a in m else Poly.atom(a))
            r = r + term
        return r

    def __repr__(self):
        if not self.t:
            return "0"
        parts = []
        for k, v in sorted(self.t.items(), key=lambda kv: (len(kv[0]), kv[0])):
            if k == ():
                parts.append(str(v))
            else:
                m = "*".join(k)
                parts.append(m if v == 1 else ("-" + m if v == -1 else "%d*%s" % (v, m)))
        return " + ".join(parts).replace("+ -", "- ")


def poly(f, i, atomize=None, env=None):
    """integer expression -> Poly; non-arithmetic subexpressions become atoms (rendered text,
    or atomize(f, node) if given and it returns a string)."""
    i0 = f.strip(i, casts=False)
    n0 = f.nodes[i0]
    if "cv" in n0 and n0["k"] not in ("DeclRefExpr", "MemberExpr") and not (env and any(
            f.nodes[x]["k"] == "DeclRefExpr" and f.nodes[x]["decl"].get("id") in env for x in f.walk(i0))):
        return Poly.const(n0["cv"])      # constant expression, explicit casts included (e.g. (uint32_t)-1)
    i = f.strip(i)
    n = f.nodes[i]
    k = n["k"]
    if k == "DeclRefExpr" and env and n["decl"].get("id") in env:
        return env[n["decl"]["id"]]
    if atomize:
        a = atomize(f, i)
        if a is not None:
            return a if isinstance(a, Poly) else Poly.atom(a)
    if k in ("IntegerLiteral", "CharacterLiteral", "CXXBoolLiteralExpr"):
        return Poly.const(n["v"])
    if "cv" in n and k not in ("DeclRefExpr", "MemberExpr"):
        return Poly.const(n["cv"])
    if k == "DeclRefExpr" and n["decl"]["kind"] in ("EnumConstant",) and "cv" in n:
        return Poly.const(n["cv"])
    if k == "BinaryOperator":
        a, b = n["ch"]
        if n["op"] == "+":
            return poly(f, a, atomize, env) + poly(f, b, atomize, env)
        if n["op"] == "-":
            return poly(f, a, atomize, env) - poly(f, b, atomize, env)
        if n["op"] == "*":
            return poly(f, a, atomize, env) * poly(f, b, atomize, env)
    if k == "UnaryOperator" and n["op"] == "-":
        return -poly(f, n["ch"][0], atomize, env)
    if k == "UnaryOperator" and n["op"] == "+":
        return poly(f, n["ch"][0], atomize, env)
    if k == "DeclRefExpr" and env and n["decl"]["id"] in env:
        return env[n["decl"]["id"]]
    return Poly.atom(f.render(i))


# --------------------------------------------------------------------------
# forward dataflow over the extracted CFG
# --------------------------------------------------------------------------
def dataflow(f, entry_state, transfer, join, edge=None, entry_block=None, max_iter=10000):
    """Generic forward dataflow.
    transfer(state, elem, b, j) -> state          (elem is the CFG element dict)
    edge(state, b, k, succ, cond) -> state or None (k = successor index; None = edge infeasible)
    join(a, b) -> state
    Returns (IN, OUT): dict block -> state at block entry / exit.
    """
    entry = f.cfg["entry"] if entry_block is None else entry_block
    IN = {entry: entry_state}
    OUT = {}
    work = [entry]
    it = 0
    while work:
        it += 1
        if it > max_iter:
            raise AnalysisBroken("dataflow did not converge in %s" % f.qname)
        b = work.pop()
        st = IN[b]
        blk = f.blocks[b]
        for j, e in enumerate(blk["elems"]):
            st = transfer(st, e, b, j)
        OUT[b] = st
        cond = blk.get("termCond", -1)
        if blk.get("noReturn") and not any(e.get("kind") == "stmt" and f.nodes[e["n"]]["k"] == "CXXThrowExpr" for e in blk["elems"]):
            continue     # abort()/__assert_fail/pthread_exit: control does not continue to the exit block
        for k, s in enumerate(blk["succ"]):
            if s < 0:
                continue
            st2 = st
            if edge is not None:
                st2 = edge(st, b, k, s, cond)
                if st2 is None:
                    continue
            if s not in IN:
                IN[s] = st2
                work.append(s)
            else:
                j2 = join(IN[s], st2)
                if j2 != IN[s]:
                    IN[s] = j2
                    work.append(s)
    return IN, OUT


def state_before(f, IN, transfer, b, j):
    """state just before element j of block b."""
    if b not in IN:
        return None
    st = IN[b]
    for jj, e in enumerate(f.blocks[b]["elems"][:j]):
        st = transfer(st, e, b, jj)
    return st


def cond_polarity(f, c):
    """strip logical negations: returns (core node, negated?)"""
    neg = False
    c = f.strip(c)
    while c >= 0 and f.nodes[c]["k"] == "UnaryOperator" and f.nodes[c]["op"] == "!":
        neg = not neg
        c = f.strip(f.ch(c)[0])
    return c, neg


# --------------------------------------------------------------------------
# loops and small path-sensitive helpers
# --------------------------------------------------------------------------
def natural_loops(f):
    """list of (header, frozenset(blocks)) for every back edge t->h with h dominating t."""
    dom = f.dominators()
    pm = f.preds_map()
    loops = []
    for t in dom:
        for h in f.succs(t):
            if h in dom and h in dom[t]:
                body = {h, t}
                st = [t]
                while st:
                    x = st.pop()
                    if x == h:
                        continue
                    for p in pm[x]:
                        if p in dom and p not in body:
                            body.add(p)
                            st.append(p)
                loops.append((h, frozenset(body)))
    # merge loops with the same header
    merged = {}
    for h, b in loops:
        merged[h] = merged.get(h, frozenset()) | b
    return sorted(merged.items(), key=lambda kv: len(kv[1]))


def const_tracked_vars(f):
    """locals (decl id) of integer/bool type whose every definition in f is an integer constant."""
    defs = {}
    bad = set()
    for i in f.walk():
        n = f.nodes[i]
        k = n["k"]
        if k == "DeclStmt":
            for d in n["decls"]:
                if d.get("dk") == "Var" and d.get("ctype") in ("int", "bool", "_Bool", "unsigned int", "long"):
                    if d.get("init", -1) >= 0:
                        cv = f.nodes[d["init"]].get("cv")
                        if cv is None:
                            bad.add(d["id"])
                        else:
                            defs.setdefault(d["id"], set()).add(cv)
                    else:
                        defs.setdefault(d["id"], set())
        elif k in ("BinaryOperator", "CompoundAssignOperator") and n["op"] in ("=", "+=", "-=", "*=", "/=", "|=", "&=", "^=", "<<=", ">>=", "%="):
            l = f.strip(n["ch"][0])
            ln = f.nodes[l]
            if ln["k"] == "DeclRefExpr" and ln["decl"]["kind"] == "Var":
                if n["op"] != "=" or f.nodes[n["ch"][1]].get("cv") is None:
                    bad.add(ln["decl"]["id"])
                else:
                    defs.setdefault(ln["decl"]["id"], set()).add(f.nodes[n["ch"][1]]["cv"])
        elif k == "UnaryOperator" and n["op"] in ("++", "--", "&"):
            l = f.strip(n["ch"][0])
            ln = f.nodes[l]
            if ln["k"] == "DeclRefExpr" and ln["decl"]["kind"] == "Var":
                bad.add(ln["decl"]["id"])
    return set(v for v in defs if v not in bad)


def const_assign(f, i, tracked):
    """if CFG element node i assigns a constant to a tracked var return (var, value)."""
    n = f.nodes[i]
    if n["k"] == "BinaryOperator" and n["op"] == "=":
        l = f.strip(n["ch"][0])
        ln = f.nodes[l]
        if ln["k"] == "DeclRefExpr" and ln["decl"].get("id") in tracked:
            return ln["decl"]["id"], f.nodes[n["ch"][1]]["cv"]
    if n["k"] == "DeclStmt":
        for d in n["decls"]:
            if d.get("dk") == "Var" and d.get("id") in tracked and d.get("init", -1) >= 0:
                return d["id"], f.nodes[d["init"]]["cv"]
    return None


def eval_const_cond(f, cond, consts):
    """evaluate a leaf branch condition over tracked constants: True/False/None(unknown)."""
    c, neg = cond_polarity(f, cond)
    n = f.nodes[c]
    val = None
    d = dict(consts)
    if n["k"] == "DeclRefExpr" and n["decl"].get("id") in d:
        val = d[n["decl"]["id"]] != 0
    elif n["k"] == "BinaryOperator" and n["op"] in ("==", "!="):
        a, b = (f.strip(x) for x in n["ch"])
        an, bn = f.nodes[a], f.nodes[b]
        if bn["k"] == "DeclRefExpr" and bn["decl"].get("id") in d and "cv" in an:
            a, b, an, bn = b, a, bn, an
        if an["k"] == "DeclRefExpr" and an["decl"].get("id") in d and "cv" in bn:
            val = (d[an["decl"]["id"]] == bn["cv"]) == (n["op"] == "==")
    if val is None:
        return None
    return (not val) if neg else val


# --------------------------------------------------------------------------
# relational normal form of branch conditions (integer semantics)
# --------------------------------------------------------------------------
def rel_canon(f, c, atomize=None):
    """leaf comparison -> (Poly, rel) with rel in {'<0', '==0', '!=0'} meaning `Poly rel`, or None.
    Integer semantics: A <= B  ==  A - B - 1 < 0.  Logical negation is folded in."""
    c, neg = cond_polarity(f, c)
    n = f.nodes[c]
    if n["k"] == "CXXOperatorCallExpr" and n.get("opcall") in ("<", "<=", ">", ">=", "==", "!="):
        op = n["opcall"]
        a, b = n["ch"][1], n["ch"][2]
    elif n["k"] == "BinaryOperator" and n["op"] in ("<", "<=", ">", ">=", "==", "!="):
        op = n["op"]
        a, b = n["ch"]
    else:
        return None
    pa, pb = poly(f, a, atomize), poly(f, b, atomize)
    if neg:
        op = {"<": ">=", "<=": ">", ">": "<=", ">=": "<", "==": "!=", "!=": "=="}[op]
    one = Poly.const(1)
    if op == "<":
        return (pa - pb, "<0")
    if op == "<=":
        return (pa - pb - one, "<0")
    if op == ">":
        return (pb - pa, "<0")
    if op == ">=":
        return (pb - pa - one, "<0")
    return (eq_norm(pa - pb), "==0" if op == "==" else "!=0")


def eq_norm(d):
    """sign-normalise the polynomial of an (in)equation P == 0 / P != 0: the last monomial in sorted order gets a positive coefficient."""
    ks = sorted(d.t.items(), key=lambda kv: (len(kv[0]), kv[0]))
    if ks and ks[-1][1] < 0:
        return -d
    return d


def printf_format(f, call, fmt_index=2):
    """format of a snprintf-like call with its literal string arguments folded in: snprintf(buf, n, "%s%d", "ORDER", i) reads "ORDER%d".
    Returns (format text or None, [argument nodes that remain, in order])."""
    a = f.args(call)
    if len(a) <= fmt_index:
        return None, []
    fm = f.strip(a[fmt_index])
    if f.k(fm) != "StringLiteral":
        return None, []
    text = f.nodes[fm]["v"]
    rest = list(a[fmt_index + 1:])
    out, remaining = "", []
    j = 0
    import re as _re
    pos_ = 0
    for m in _re.finditer(r"%(%|[-+ #0]*\d*(?:\.\d+)?(?:hh|h|ll|l|z|j|t|L)?[diouxXeEfgGcsp])", text):
        out += text[pos_:m.start()]
        pos_ = m.end()
        spec = m.group(0)
        if spec == "%%":
            out += "%%"
            continue
        arg = rest[j] if j < len(rest) else -1
        j += 1
        if spec.endswith("s") and arg >= 0 and f.k(f.strip(arg)) == "StringLiteral":
            out += f.nodes[f.strip(arg)]["v"]
        else:
            out += spec
            if arg >= 0:
                remaining.append(arg)
    out += text[pos_:]
    return out, remaining


def cond_leaves(f, c):
    """split a condition into (connective, [leaf nodes]): connective in {'leaf','&&','||'} (flat, one level of nesting folded)."""
    c = f.strip(c)
    n = f.nodes[c]
    if n["k"] == "BinaryOperator" and n["op"] in ("&&", "||"):
        op = n["op"]
        out = []
        for x in n["ch"]:
            x = f.strip(x)
            if f.nodes[x]["k"] == "BinaryOperator" and f.nodes[x]["op"] == op:
                out += cond_leaves(f, x)[1]
            else:
                out.append(x)
        return op, out
    return "leaf", [c]


def then_throws(f, ifnode):
    """the then-branch of the IfStmt ends in a throw on every path (single statement or compound ending in throw)."""
    t = f.nodes[ifnode]["then"]
    return any(f.k(x) == "CXXThrowExpr" for x in f.walk(t)) and not any(f.k(x) in ("ReturnStmt", "BreakStmt", "ContinueStmt") for x in f.walk(t))


# --------------------------------------------------------------------------
# evaluation of side-effect-free scalar expressions over a finite environment (selector analysis)
# --------------------------------------------------------------------------
class Unknown(Exception):
    """the expression mentions something the environment does not define (or reads through a null pointer)"""


NULLPTR = "<null>"          # value of a null pointer in an environment
SOMEPTR = "<object>"        # value of a non-null pointer


def atom_text(f, i):
    return f.render(i).replace("this->", "").replace("table.", "").replace("this.", "").replace(" ", "")


def expr_value(f, i, env):
    """value of expression node i under env: {rendered atom text (blanks, this->, table. removed) -> int | NULLPTR | SOMEPTR}.
    Integers are mathematical (no wrap-around: used for selectors and small indices only).  Short-circuit operators and the conditional
    operator evaluate only the operand C++ evaluates, so `p == nullptr || p[n] == 0` is defined for p null.  Raises Unknown otherwise."""
    i = f.strip(i)
    n = f.nodes[i]
    k = n["k"]
    txt = atom_text(f, i)
    if txt in env:
        return env[txt]
    if txt.startswith("(") and txt.endswith(")") and txt[1:-1] in env:
        return env[txt[1:-1]]
    if "cv" in n:
        return n["cv"]
    if k in ("IntegerLiteral", "CharacterLiteral"):
        return n.get("v", n.get("cv"))
    if k == "CXXBoolLiteralExpr":
        return 1 if n.get("v") else 0
    if k in ("CXXNullPtrLiteralExpr", "GNUNullExpr"):
        return NULLPTR
    if k == "UnaryOperator":
        op = n.get("op")
        if op in ("++", "--", "&", "*"):
            raise Unknown(txt)
        v = expr_value(f, n["ch"][0], env)
        if op == "!":
            return 0 if truth(v) else 1
        if v in (NULLPTR, SOMEPTR):
            raise Unknown(txt)
        return {"-": -v, "+": v, "~": ~v}[op]
    if k == "ConditionalOperator":
        c, a, b = n["ch"]
        return expr_value(f, a if truth(expr_value(f, c, env)) else b, env)
    if k == "BinaryOperator":
        op = n.get("op")
        if op == "&&":
            return 1 if truth(expr_value(f, n["ch"][0], env)) and truth(expr_value(f, n["ch"][1], env)) else 0
        if op == "||":
            return 1 if truth(expr_value(f, n["ch"][0], env)) or truth(expr_value(f, n["ch"][1], env)) else 0
        if op == ",":
            raise Unknown(txt)
        a = expr_value(f, n["ch"][0], env)
        b = expr_value(f, n["ch"][1], env)
        if a in (NULLPTR, SOMEPTR) or b in (NULLPTR, SOMEPTR):
            # pointer comparisons: against null only (an integer literal 0 is a null pointer constant)
            b2 = NULLPTR if b == 0 else b
            a2 = NULLPTR if a == 0 else a
            if op == "==":
                if SOMEPTR in (a2, b2) and a2 == b2:
                    raise Unknown(txt)
                return 1 if a2 == b2 else 0
            if op == "!=":
                if SOMEPTR in (a2, b2) and a2 == b2:
                    raise Unknown(txt)
                return 0 if a2 == b2 else 1
            raise Unknown(txt)
        try:
            return {"+": lambda: a + b, "-": lambda: a - b, "*": lambda: a * b, "/": lambda: int(a / b), "%": lambda: a - b * int(a / b),
                    "<<": lambda: a << b, ">>": lambda: a >> b, "&": lambda: a & b, "|": lambda: a | b, "^": lambda: a ^ b,
                    "<": lambda: int(a < b), "<=": lambda: int(a <= b), ">": lambda: int(a > b), ">=": lambda: int(a >= b),
                    "==": lambda: int(a == b), "!=": lambda: int(a != b)}[op]()
        except (KeyError, ZeroDivisionError, ValueError):
            raise Unknown(txt)
    if k == "ArraySubscriptExpr":
        base = n["ch"][0]
        try:
            bv = expr_value(f, base, env)
        except Unknown:
            bv = None
        if bv == NULLPTR:
            raise Unknown("read through a null pointer: " + txt)
        # the element with the index evaluated, if the environment names it that way
        try:
            iv = expr_value(f, n["ch"][1], env)
            key = "%s[%s]" % (atom_text(f, base), iv)
            if key in env:
                return env[key]
        except Unknown:
            pass
    raise Unknown(txt)


def truth(v):
    if v == NULLPTR:
        return False
    if v == SOMEPTR:
        return True
    return v != 0


def _switch_reaches(f, sw, i, value):
    """does control reach the top-level statement of switch `sw` that contains node i when the switch value is `value`?"""
    body = f.nodes[sw]["body"]
    if f.k(body) != "CompoundStmt":
        raise Unknown("switch body")
    top = i
    for a in f.ancestors(i):
        if a == body:
            break
        top = a
    kids = f.ch(body)
    if top not in kids:
        raise Unknown("switch body")
    labels = []
    for s in f.walk(body):
        if f.k(s) == "CaseStmt" and next((a for a in f.ancestors(s) if f.k(a) == "SwitchStmt"), None) == sw:
            lv = f.nodes[f.strip(f.nodes[s]["lhs"])].get("cv", f.nodes[f.nodes[s]["lhs"]].get("cv"))
            if lv is None:
                raise Unknown("case label")
            labels.append(lv)
    JUMP = ("BreakStmt", "ReturnStmt", "ContinueStmt", "CXXThrowExpr", "GotoStmt")

    def ends_in_jump(s):
        s = f.strip(s) if f.k(s) in TRANSPARENT else s
        if f.k(s) in JUMP:
            return True
        if f.k(s) == "CompoundStmt":
            kk = f.ch(s)
            return bool(kk) and ends_in_jump(kk[-1])
        return False
    active = set()
    for s in kids:
        t = s
        while f.k(t) in ("CaseStmt", "DefaultStmt"):
            active.add(f.nodes[f.strip(f.nodes[t]["lhs"])].get("cv", f.nodes[f.nodes[t]["lhs"]].get("cv")) if f.k(t) == "CaseStmt" else "default")
            if t == top and False:
                break
            t = f.nodes[t]["sub"]
        if s == top:
            sel = value if value in labels else "default"
            return sel in active
        if ends_in_jump(t):
            active = set()
    raise Unknown("switch body")


def path_taken(f, i, env):
    """is node i evaluated when the enclosing branch conditions are evaluated under env?  Only if/else, switch, ?: and the short-circuit
    operators are decided; loops are taken as entered.  Raises Unknown when a condition on the way cannot be evaluated."""
    chain = [i]
    for a in f.ancestors(i):
        if f.k(a) == "LambdaExpr":
            break
        chain.append(a)
    # outermost first: an inner condition is evaluated only when the outer ones let control through
    for j in range(len(chain) - 1, 0, -1):
        a, child = chain[j], chain[j - 1]
        n = f.nodes[a]
        k = n["k"]
        if k == "IfStmt":
            if child == n.get("then"):
                if not truth(expr_value(f, n["cond"], env)):
                    return False
            elif child == n.get("else"):
                if truth(expr_value(f, n["cond"], env)):
                    return False
        elif k == "SwitchStmt":
            if child == n.get("body"):
                v = expr_value(f, n["cond"], env)
                if v in (NULLPTR, SOMEPTR):
                    raise Unknown("switch on a pointer")
                if not _switch_reaches(f, a, i, v):
                    return False
        elif k == "ConditionalOperator" and len(n["ch"]) == 3:
            if child == n["ch"][1] and not truth(expr_value(f, n["ch"][0], env)):
                return False
            if child == n["ch"][2] and truth(expr_value(f, n["ch"][0], env)):
                return False
        elif k == "BinaryOperator" and n.get("op") in ("&&", "||") and child == n["ch"][1]:
            l = truth(expr_value(f, n["ch"][0], env))
            if (n["op"] == "&&") != l:
                return False
    return True
