#include <photospline/splinetable.h>
#include <cstdio>
#include <unistd.h>
int main(int argc,char**argv){
	const char* keys[]={"HISTORY","","HIERARCH FOO","FOO BAR BAZ","CONTINUE","LONGKEY12 "," LEADSPACE1","HISTORYX"};
	int lost=0;
	for(const char* k: keys){
		photospline::splinetable<> t(argv[1]);
		try{ t.write_key(k,std::string("val")); }catch(std::exception&e){ printf("key '%s': rejected (%s)\n",k,e.what()); continue;}
		try{
		auto buf=t.write_fits_mem();
		photospline::splinetable<> u; 
		try{u.read_fits_mem(buf.first,buf.second);}catch(std::exception&e){printf("key '%s': read failed %s\n",k,e.what()); free(buf.first); continue;}
		free(buf.first);
		printf("key '%s': after round trip naux=%zu:",k,(size_t)u.get_naux_values());
		for(size_t i=0;i<u.get_naux_values();i++) printf(" ['%s'='%s']",u.get_aux_key(i),u.get_aux_value(u.get_aux_key(i))?u.get_aux_value(u.get_aux_key(i)):"(null)");
		printf("\n");
		std::string r; if(!u.read_key(k,r) || r.substr(0,3)!="val"){ printf("    -> accepted by write_key, but not intact after the round trip\n"); lost++; }
		}catch(std::exception&e){printf("key '%s': write failed %s\n",k,e.what());}
	}
	// max-length value with quotes
	{
		photospline::splinetable<> t(argv[1]);
		std::string v(68,'a'); v[10]='\''; 
		try{ t.write_key("QUOTEY",v); }catch(std::exception& e){ printf("68-char value with quote: rejected (%s)\n", e.what()); printf("%d accepted key(s) lost or altered\n", lost); return lost?1:0; }
		auto buf=t.write_fits_mem();
		photospline::splinetable<> u; u.read_fits_mem(buf.first,buf.second); free(buf.first);
		std::string r; bool ok=u.read_key("QUOTEY",r);
		printf("68-char value with quote: ok=%d len=%zu equal=%d\n",ok,r.size(),r==v); if(!(ok&&r==v)) lost++;
	}
	printf("%d accepted key(s) lost or altered\n", lost);
	return lost?1:0;
}
