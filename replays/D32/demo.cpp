// convolve with an out-of-range dimension or an empty kernel: must be refused, not read out of bounds
#include <photospline/splinetable.h>
#include <cstdio>
int main(int argc,char**argv){
	int bad=0;
	for(int variant=0;variant<2;variant++){
		photospline::splinetable<> t(argv[1]);
		photospline::splinetable<> ref(argv[1]);
		double k[3]={-0.1,0.0,0.1};
		try{
			if(variant==0) t.convolve(t.get_ndim()+3,k,3);
			else t.convolve(0,k,0);
			printf("variant %d: accepted\n",variant); bad++;
		}catch(std::exception& e){ printf("variant %d: refused (%s)\n",variant,e.what()); }
		if(!(t==ref)){ printf("variant %d: table changed\n",variant); bad++; }
	}
	return bad?1:0;
}
