// D45: splinetable_write_key with a value type it has no case for stores nothing and returns 0 (success);
// its sibling splinetable_read_key returns 1 for the same selector.
#include <photospline/cinter/splinetable.h>
#include <cstdio>
int main(int argc, char** argv){
	struct splinetable t; splinetable_init(&t);
	if(readsplinefitstable(argv[1], &t)){ printf("read failed\n"); return 2; }
	int v = 42;
	int w = splinetable_write_key(&t, (splinetable_dtype)7, "ANSWER", &v);
	int out = 0;
	int r = splinetable_read_key(&t, (splinetable_dtype)7, "ANSWER", &out);
	const char* s = splinetable_get_key(&t, "ANSWER");
	printf("write_key(type 7) returned %d, key stored: %s, read_key(type 7) returned %d\n", w, s ? s : "(absent)", r);
	splinetable_free(&t);
	return (w == 0 && !s) ? 1 : 0;
}
