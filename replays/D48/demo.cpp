// D48: a handle whose read failed holds no table (data == NULL).  writesplinefitstable, writesplinefitstable_mem and splinetable_permute
// dereference it without the test their siblings make: the process crashes instead of getting a non-zero return.
#include <photospline/cinter/splinetable.h>
#include <cstdio>
#include <cstdlib>
#include <unistd.h>
#include <sys/wait.h>
static int in_child(int which){
	struct splinetable t; splinetable_init(&t);
	int r = readsplinefitstable("/nonexistent/table.fits", &t);      // fails: t.data stays NULL
	if(r == 0) return 100;
	if(which == 0) return writesplinefitstable("/tmp/d48-out.fits", &t) ? 0 : 101;
	if(which == 1){ struct splinetable_buffer b; b.data = NULL; b.size = 0; return writesplinefitstable_mem(&b, &t) ? 0 : 101; }
	size_t perm[1] = {0};
	return splinetable_permute(&t, perm) ? 0 : 101;
}
int main(){
	const char* names[] = {"writesplinefitstable", "writesplinefitstable_mem", "splinetable_permute"};
	int bad = 0;
	for(int w = 0; w < 3; w++){
		fflush(stdout);
		pid_t p = fork();
		if(p == 0){ freopen("/dev/null", "w", stderr); _exit(in_child(w)); }
		int st; waitpid(p, &st, 0);
		if(WIFSIGNALED(st)){ printf("%s on a handle left empty by a failed read: killed by signal %d\n", names[w], WTERMSIG(st)); bad++; }
		else if(WEXITSTATUS(st) != 0){ printf("%s: unexpected result %d\n", names[w], WEXITSTATUS(st)); bad++; }
		else printf("%s on a handle left empty by a failed read: non-zero return\n", names[w]);
	}
	return bad ? 1 : 0;
}
