#include <photospline/splinetable.h>
#include <cstdio>
#include <cstring>
#include <string>
#include <vector>
static void card(std::string& out, const std::string& c){ std::string s=c; s.resize(80,' '); out+=s; }
static void endheader(std::string& out){ card(out,"END"); while(out.size()%2880) out+=' '; }
static void be_double(std::string& out, double d){ uint64_t u; memcpy(&u,&d,8); for(int i=7;i>=0;i--) out+=char((u>>(8*i))&0xff); }
static void be_float(std::string& out, float d){ uint32_t u; memcpy(&u,&d,4); for(int i=3;i>=0;i--) out+=char((u>>(8*i))&0xff); }
// knots2d: write KNOTS HDUs as 2-d images nk x 1
std::string craft(int ndim, long n, int order, bool knots2d){
	std::string f; char buf[81];
	card(f,"SIMPLE  =                    T"); card(f,"BITPIX  =                  -32");
	snprintf(buf,81,"NAXIS   = %20d",ndim); card(f,buf);
	for(int i=1;i<=ndim;i++){ snprintf(buf,81,"NAXIS%-3d= %20ld",i,n); card(f,buf); }
	card(f,"EXTEND  =                    T");
	for(int i=0;i<ndim;i++){ snprintf(buf,81,"ORDER%-3d= %20d",i,order); card(f,buf); }
	endheader(f);
	std::string d; long tot=1; for(int i=0;i<ndim;i++) tot*=n;
	for(long k=0;k<tot;k++) be_float(d,1.0f+k);
	while(d.size()%2880) d+='\0'; f+=d;
	long nk=n+order+1;
	for(int i=0;i<ndim;i++){
		std::string h,dd;
		card(h,"XTENSION= 'IMAGE   '"); card(h,"BITPIX  =                  -64");
		if(knots2d){ card(h,"NAXIS   =                    2"); snprintf(buf,81,"NAXIS1  = %20ld",nk); card(h,buf); card(h,"NAXIS2  =                    1"); }
		else { card(h,"NAXIS   =                    1"); snprintf(buf,81,"NAXIS1  = %20ld",nk); card(h,buf); }
		card(h,"PCOUNT  =                    0"); card(h,"GCOUNT  =                    1");
		snprintf(buf,81,"EXTNAME = 'KNOTS%d'",i); card(h,buf);
		endheader(h);
		for(long k=0;k<nk;k++) be_double(dd,(double)k);
		while(dd.size()%2880) dd+='\0';
		f+=h; f+=dd;
	}
	return f;
}
int main(int argc,char**argv){
	int ndim=atoi(argv[1]); long n=atol(argv[2]); int order=atoi(argv[3]); bool k2=atoi(argv[4]);
	std::string f=craft(ndim,n,order,k2);
	FILE* fp=fopen("p2.fits","wb"); fwrite(f.data(),1,f.size(),fp); fclose(fp);
	photospline::splinetable<> t;
	try{ t.read_fits("p2.fits"); }catch(std::exception& e){ printf("read failed: %s\n",e.what()); return 0; }
	printf("loaded ndim=%u\n",t.get_ndim());
	for(uint32_t i=0;i<t.get_ndim() && i<2;i++){ printf("knots%u:",i); for(uint64_t k=0;k<t.get_nknots(i);k++) printf(" %g",t.get_knot(i,k)); printf("\n"); }
	std::vector<double> x(ndim,0.5); std::vector<int> c(ndim);
	if(t.searchcenters(x.data(),c.data())) printf("value %g\n",t.ndsplineeval(x.data(),c.data(),0));
	else printf("lookup refused\n");
	return 0;
}
