#!/bin/sh
# usage: run.sh <photospline tree>   (exit 1 on a tree without the fixes of D66 / D67)
# D66: a 1-d table whose KNOTS0 extension is stored as a 2-d image: cfitsio copies two first-pixel entries from the address of one long
# D67: a well-formed 20-dimensional table: fits_read_pix addresses the image through 9-element axis arrays
SRC=${1:-/repo}; OUT=$(mktemp -d); trap 'rm -rf "$OUT"' EXIT
H=$(dirname "$(readlink -f "$0")")
g++ -std=gnu++11 -g -O1 -fsanitize=address,undefined -I"$SRC/include" "$H/demo.cpp" "$SRC"/src/core/*.cpp -o "$OUT/demo" -lcfitsio -lpthread || exit 2
cd "$OUT"; bad=0
./demo 1 4 2 1 > o1.txt 2>&1; grep -q "read failed" o1.txt && ! grep -q "AddressSanitizer" o1.txt || { echo "D66: a 2-d knot extension is read through a single first-pixel index"; grep -m1 "ERROR" o1.txt; bad=1; }
./demo 20 1 0 0 > o2.txt 2>&1; grep -q "read failed" o2.txt || { echo "D67: a 20-dimensional table reaches fits_read_pix"; tail -1 o2.txt; bad=1; }
./demo 9 1 0 0 > o3.txt 2>&1; grep -q "value 1" o3.txt || { echo "a 9-dimensional table no longer loads"; bad=1; }
[ $bad = 0 ] && echo PASS
exit $bad
