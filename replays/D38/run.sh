#!/bin/sh
# usage: run.sh <photospline tree>   (AddressSanitizer / MemorySanitizer-style reports on a tree without the fix)
set -e
T=${1:-/repo}; O=$(mktemp -d); trap 'rm -rf "$O"' EXIT; H=$(dirname "$0")
python3 $H/edit.py $T/test/test_data/test_spline_1d.fits $O/o1.fits ORDER0=2147483649
python3 $H/edit.py $T/test/test_data/test_spline_1d.fits $O/o2.fits ORDER0=4294967295
python3 $H/edit.py $T/test/test_data/test_spline_1d.fits $O/k0.fits 1:NAXIS=0
g++ -std=gnu++17 -g -O1 -fsanitize=address,undefined -I$T/include -I/usr/include/suitesparse $H/demo.cpp $T/src/core/*.cpp -o $O/demo -lcfitsio -lpthread
ASAN_OPTIONS=detect_leaks=0 $O/demo $O/o1.fits $O/o2.fits $O/k0.fits 2>&1 | grep -E "refused|loaded|ERROR|runtime error|#[0-3] " | head -14
g++ -std=gnu++17 -g -O0 -I$T/include -I/usr/include/suitesparse $H/demo.cpp $T/src/core/*.cpp -o $O/demo_plain -lcfitsio -lpthread
valgrind -q $O/demo_plain $O/k0.fits 2>&1 | grep -E "refused|loaded|uninitialised|fitsio.h" | head -5
