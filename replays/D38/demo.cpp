// crafted files: huge ORDER0, a KNOTS extension without axes: the reader must refuse them without touching memory it does not own
#include <photospline/splinetable.h>
#include <cstdio>
int main(int argc,char**argv){
	int bad=0;
	for(int k=1;k<argc;k++){
		try{
			photospline::splinetable<> t(argv[k]);
			printf("%s: loaded (ndim %u)\n",argv[k],t.get_ndim()); bad++;
		}catch(std::exception& e){ printf("%s: refused (%s)\n",argv[k],e.what()); }
	}
	return bad?1:0;
}
