#!/usr/bin/env python3
# usage: edit.py in out KEY=VALUE ... [hdu:KEY=VALUE]  (raw 80-char card edit; value written as given, right-justified to col 30 if numeric)
import sys
src,dst=sys.argv[1:3]
data=bytearray(open(src,'rb').read())
def hdus(data):
    pos=0; out=[]
    while pos<len(data):
        start=pos; cards=[]
        while True:
            blk=data[pos:pos+2880]; pos+=2880
            end=False
            for i in range(0,2880,80):
                c=bytes(blk[i:i+80]); cards.append((pos-2880+i,c))
                if c.startswith(b'END     '): end=True;break
            if end or pos>=len(data): break
        d={}
        for off,c in cards:
            k=c[:8].decode().strip()
            d.setdefault(k,(off,c))
        bitpix=int(d['BITPIX'][1][10:30]); naxis=int(d['NAXIS'][1][10:30])
        n=1 if naxis else 0
        for i in range(naxis): n*=int(d['NAXIS%d'%(i+1)][1][10:30])
        size=abs(bitpix)//8*n
        size=(size+2879)//2880*2880
        out.append((start,d,pos,size)); pos+=size
    return out
H=hdus(data)
for e in sys.argv[3:]:
    h=0
    if ':' in e.split('=')[0]:
        hs,e=e.split(':',1); h=int(hs)
    k,v=e.split('=',1)
    d=H[h][1]
    if k in d:
        off=d[k][0]
    else:
        off=d['END'][0]  # overwrite END requires room; insert before END by shifting
        endcard=bytes(data[off:off+80])
        assert (off+80)%2880!=0, "no room"
        data[off+80:off+160]=endcard
    if v.startswith("'"):
        card=("%-8s= %s"%(k,v)).ljust(80)
    else:
        card=("%-8s= %20s"%(k,v)).ljust(80)
    data[off:off+80]=card.encode()
open(dst,'wb').write(data)
