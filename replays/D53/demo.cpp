// D53: an entry with weight zero must not influence the fit, whatever its value.  A masked cell (weight 0) holding NaN or inf
// made every coefficient NaN: glamfit_complex formed R = weight*value = 0*NaN.
#include <photospline/splinetable.h>
#include <cstdio>
#include <cmath>
#include <limits>
static std::vector<float> fit(double masked_value){
	std::vector<double> knots; for(int k=0;k<12;k++) knots.push_back(k);
	std::vector<double> x; for(int i=0;i<40;i++) x.push_back(0.1+i*0.27);
	photospline::ndsparse d(40,1); std::vector<double> w(40,1.0);
	for(unsigned i=0;i<40;i++){ double v=1+0.5*x[i]; if(i==17){ v=masked_value; w[i]=0; } d.insertEntry(v,&i); }
	photospline::splinetable<> s;
	s.fit(d,w,std::vector<std::vector<double>>{x},std::vector<uint32_t>{2},std::vector<std::vector<double>>{knots},
	      std::vector<double>{0.0},std::vector<uint32_t>{2},photospline::splinetable<>::no_monodim,false);
	return std::vector<float>(s.get_coefficients(),s.get_coefficients()+s.get_ncoeffs());
}
int main(){
	std::vector<float> ref=fit(123.0);
	const double vals[]={std::numeric_limits<double>::quiet_NaN(),std::numeric_limits<double>::infinity(),-1e300};
	int bad=0;
	for(double v: vals){
		std::vector<float> c=fit(v);
		double md=0; for(size_t i=0;i<c.size();i++){ double e=std::abs((double)c[i]-ref[i]); if(!(e<=md)) md=e; }
		std::printf("masked value %g: max difference from the fit with another masked value = %g\n",v,md);
		if(!(md<=1e-5)) bad++;
	}
	std::printf(bad?"FAIL: a zero-weight entry influences the fit\n":"PASS\n");
	return bad?1:0;
}
