#!/bin/sh
# usage: run.sh <photospline tree>   (exit 1 on a tree without the fix)
SRC=${1:-/repo}; OUT=$(mktemp -d); trap 'rm -rf "$OUT"' EXIT
H=$(dirname "$(readlink -f "$0")")
g++ -std=gnu++11 -g -O1 -I"$SRC/include" "$H/demo.cpp" "$SRC"/src/core/*.cpp -o "$OUT/demo" -lcfitsio -lpthread || exit 2
"$OUT/demo" "$SRC/test/test_data/test_spline_1d.fits"; rc=$?
[ $rc = 0 ] && echo PASS || echo "FAIL (exit $rc)"
[ $rc = 0 ]
