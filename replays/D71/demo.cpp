// D71: the stacking constructor accepts a stacking order that the number of tables cannot support.  With N input tables the new
// dimension gets N+2 coefficients (two padding tables) and N+2+order+1 knots; a well-formed dimension needs at least order+1
// coefficients (nknots >= 2*order+2).  Two tables stacked with order 4: 4 coefficients, 9 knots — the table is built, evaluates
// through margins only, is written without complaint and is then refused by the reader ("Too few knots (9) for a spline of order 4").
#include <photospline/splinetable.h>
#include <cstdio>
#include <vector>
int main(int argc, char** argv){
	photospline::splinetable<> t(argv[1]);
	std::vector<photospline::splinetable<>*> tables{&t, &t};
	std::vector<double> coords{0.0, 1.0};
	try{
		photospline::splinetable<> s(tables, coords, 4);
		unsigned d = s.get_ndim()-1;
		printf("stacked: %llu coefficients, %llu knots, order %u in the new dimension\n", (unsigned long long)s.get_ncoeffs(d), (unsigned long long)s.get_nknots(d), s.get_order(d));
		auto buf = s.write_fits_mem();
		photospline::splinetable<> back;
		try{ back.read_fits_mem(buf.first, buf.second); printf("read back ok\n"); free(buf.first); return (s==back) ? 0 : 1; }
		catch(std::exception& e){ printf("the table that was just written is refused by the reader: %s\n", e.what()); free(buf.first); return 1; }
	}catch(std::exception& e){ printf("refused: %s\n", e.what()); return 0; }
}
