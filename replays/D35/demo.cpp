// minimal tables (exactly order+1 coefficients): evaluation vs the Cox-de Boor sum, incl. margins
#include <photospline/splinetable.h>
#include <photospline/bspline.h>
#include <cstdio>
#include <cmath>
#include <fitsio.h>
static void make(const char* path,int order,int ncoef,const std::vector<double>& knots,const std::vector<float>& c){
	fitsfile* f; int st=0; remove(path);
	fits_create_file(&f,path,&st); long nax[1]={ncoef};
	fits_create_img(f,FLOAT_IMG,1,nax,&st); long fp[1]={1};
	fits_write_pix(f,TFLOAT,fp,ncoef,(void*)c.data(),&st);
	fits_write_key(f,TINT,"ORDER0",&order,NULL,&st);
	long kn[1]={(long)knots.size()}; fits_create_img(f,DOUBLE_IMG,1,kn,&st);
	char n[]="KNOTS0"; fits_update_key(f,TSTRING,"EXTNAME",n,NULL,&st);
	fits_write_pix(f,TDOUBLE,fp,knots.size(),(void*)knots.data(),&st);
	fits_close_file(f,&st); if(st){fits_report_error(stderr,st);exit(2);} }
int main(){
	int bad=0;
	for(int order=0;order<=4;order++) for(int extra=0;extra<=2;extra++){
		int ncoef=order+1+extra, nk=ncoef+order+1;
		std::vector<double> knots; double t=0; for(int j=0;j<nk;j++){ knots.push_back(t); t+=0.5+0.3*((j*7)%3);} 
		std::vector<float> c; for(int j=0;j<ncoef;j++) c.push_back(1.0f+0.5f*j);
		make("/tmp/d35/t.fits",order,ncoef,knots,c);
		photospline::splinetable<> s("/tmp/d35/t.fits");
		int cnt=0,lm=0,rm=0; for(int p=1;p<=400;p++){
			double x=knots[0]+(knots[nk-1]-knots[0])*p/400.0; int cen;
			if(!s.searchcenters(&x,&cen)) { continue; }
			double got=s.ndsplineeval(&x,&cen,0), want=0;
			for(int j=0;j<ncoef;j++) want+=c[j]*photospline::bspline(knots.data(),x,j,order);
			if(x==knots[nk-1]) continue; // right end convention
			if(std::fabs(got-want)>1e-5*(1+std::fabs(want))){ bad++; cnt++; if(x<knots[order]) lm++; else if(x>knots[nk-order-1]) rm++; }
		}
		printf("order %d ncoef %d (order+1+%d): %d disagreements (left margin %d, right margin %d)\n",order,ncoef,extra,cnt,lm,rm);
	}
	printf("%d disagreements\n",bad); return bad?1:0;
}
