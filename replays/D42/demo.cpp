#include <photospline/splinetable.h>
#include <cstdio>
#include <cmath>
#include <vector>
#include <cstdlib>
using namespace photospline;
typedef std::vector<double> V;
static std::vector<float> fit2(const V& x,const V& y,const std::vector<uint32_t>& ord,const std::vector<V>& kn,V sm,std::vector<uint32_t> po,uint32_t mono){
	photospline::ndsparse data(x.size()*y.size(),2);
	V w;
	for(unsigned i=0;i<x.size();i++) for(unsigned j=0;j<y.size();j++){ unsigned idx[2]={i,j}; data.insertEntry((0.2+exp(0.4*x[i]))*(2+sin(y[j])) ,idx); w.push_back(1.0);}
	splinetable<> s;
	std::vector<V> coords{x,y};
	s.fit(data,w,coords,ord,kn,sm,po,mono,false);
	size_t n=s.get_ncoeffs(0)*s.get_ncoeffs(1);
	return std::vector<float>(s.get_coefficients(),s.get_coefficients()+n);
}
int main(int argc,char**argv){
	for(int swap=0;swap<2;swap++)
	for(double s0: {0.0,0.5}) for(double s1: {0.0,0.5}){
		uint32_t order=2;
		V k0; for(int k=-(int)order;k<=8+(int)order;k++) k0.push_back(k);
		V k1; for(int k=-(int)order;k<=6+(int)order;k++) k1.push_back(k);
		V x,y; for(int i=0;i<80;i++) x.push_back(8.0*(i+0.5)/80); for(int i=0;i<60;i++) y.push_back(6.0*(i+0.5)/60);
		// monodim=0 uses x as mono. (swap not implemented: keep simple)
		if(swap) continue;
		auto u=fit2(x,y,{order,order},{k0,k1},{s0,s1},{2,2},splinetable<>::no_monodim);
		auto m=fit2(x,y,{order,order},{k0,k1},{s0,s1},{2,2},0);
		size_t n1=k1.size()-order-1, n0=k0.size()-order-1;
		bool inactive=true, mon=true; 
		for(size_t i=0;i<n0;i++) for(size_t j=0;j<n1;j++){ float a=u[i*n1+j]; if(a<0) inactive=false; if(i>0 && a<u[(i-1)*n1+j]) inactive=false; float b=m[i*n1+j]; if(b<0) mon=false; if(i>0 && b<m[(i-1)*n1+j]) mon=false;}
		double md=0,sc=0; for(size_t i=0;i<u.size();i++){md=std::max(md,(double)std::fabs(u[i]-m[i])); sc=std::max(sc,(double)std::fabs(u[i]));}
		printf("smooth (%g,%g): inactive=%d mono_ok=%d maxdiff=%g scale=%g\n",s0,s1,inactive,mon,md,sc);
	}
	return 0;
}
