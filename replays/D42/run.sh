#!/bin/sh
# usage: run.sh <photospline tree>
# 2-d fits, order 2, penalty order 2, data positive and increasing along dimension 0 (so the monotonic constraint is inactive):
# prints the largest difference between the monotonic fit (monodim 0) and the unconstrained fit for four smoothing settings.
# On a tree without the fix the settings that smooth dimension 1 differ by several units on a scale of ~90.
set -e
SRC=${1:-/repo}; OUT=$(mktemp -d); trap 'rm -rf "$OUT"' EXIT
INC="-I$SRC/include -I/usr/include/suitesparse"; DEFS="-DPHOTOSPLINE_INCLUDES_SPGLAM"
for f in "$SRC"/src/fitter/*.c; do gcc -std=gnu99 -O1 -g -w $DEFS $INC -I"$SRC/src/fitter" -c "$f" -o "$OUT/$(basename "$f" .c).o"; done
g++ -std=gnu++11 -O1 -w $DEFS $INC "$(dirname "$0")/demo.cpp" "$SRC"/src/core/*.cpp "$OUT"/*.o -lcfitsio -lspqr -lcholmod -lpthread -lm -o "$OUT/demo"
OMP_NUM_THREADS=2 "$OUT/demo" | grep smooth
