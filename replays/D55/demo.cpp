// D55: every entry write_key accepts must come back from a FITS round trip with its value intact apart from trailing blanks (C16).
// A FITS card holds printable ASCII only; cfitsio replaces anything else by a blank, so such a value must be refused.
#include <photospline/splinetable.h>
#include <cstdio>
#include <cstdlib>
int main(int argc,char**argv){
	int bad=0;
	const char* vals[]={"a\nb","tab\there","del\x7f","caf\xc3\xa9","bell\a","plain text ~!@"};
	for(const char* v: vals){
		photospline::splinetable<> t(argv[1]);
		bool accepted=true;
		try{ t.write_key("MYKEY",std::string(v)); }catch(std::exception&){ accepted=false; }
		std::string shown; for(const char* p=v;*p;p++){ char b[8]; if(*p>=32&&*p<127) snprintf(b,8,"%c",*p); else snprintf(b,8,"\\x%02x",(unsigned char)*p); shown+=b; }
		if(!accepted){ std::printf("'%s': rejected\n",shown.c_str()); continue; }
		std::pair<void*,size_t> buf=t.write_fits_mem();
		photospline::splinetable<> u; u.read_fits_mem(buf.first,buf.second); free(buf.first);
		std::string back; u.read_key("MYKEY",back);
		while(!back.empty() && back.back()==' ') back.pop_back();
		bool ok=(back==v);
		std::printf("'%s': accepted, comes back %s\n",shown.c_str(),ok?"intact":"ALTERED");
		if(!ok) bad++;
	}
	return bad?1:0;
}
