// Observation on the unchanged code: the product of the NAXISn of the
// coefficient image is formed in 64 bits without an overflow check.
// Writes a file by hand whose primary header announces 4 axes of 65536
// (product 2^64 == 0) and no data, followed by four matching knot vectors
// (order 0, 65537 knots each), then reads and evaluates it.
#include <photospline/splinetable.h>
#include <cstdio>
#include <string>
#include <vector>
#include <cstring>
#include <stdint.h>

static std::string card(const std::string& key, const std::string& val){
	char buf[81];
	snprintf(buf, sizeof(buf), "%-8s= %20s", key.c_str(), val.c_str());
	std::string s(buf);
	s.resize(80, ' ');
	return s;
}
static std::string scard(const std::string& key, const std::string& val){
	char buf[81];
	snprintf(buf, sizeof(buf), "%-8s= '%-8s'", key.c_str(), val.c_str());
	std::string s(buf);
	s.resize(80, ' ');
	return s;
}
static void pad(std::string& s, char c){
	while (s.size() % 2880) s.push_back(c);
}

int main(int argc, char* argv[]){
	const char* path = argc > 1 ? argv[1] : "overflow.fits";
	const long N = 65536;
	const int D = 4;
	std::string out;
	{
		std::string h;
		h += card("SIMPLE", "T");
		h += card("BITPIX", "-32");
		h += card("NAXIS", std::to_string(D));
		for (int i = 1; i <= D; i++)
			h += card("NAXIS" + std::to_string(i), std::to_string(N));
		h += card("EXTEND", "T");
		for (int i = 0; i < D; i++)
			h += card("ORDER" + std::to_string(i), "0");
		std::string e("END"); e.resize(80, ' '); h += e;
		pad(h, ' ');
		out += h; //no data at all
	}
	for (int d = 0; d < D; d++) {
		std::string h;
		h += scard("XTENSION", "IMAGE");
		h += card("BITPIX", "-64");
		h += card("NAXIS", "1");
		h += card("NAXIS1", std::to_string(N + 1));
		h += card("PCOUNT", "0");
		h += card("GCOUNT", "1");
		h += scard("EXTNAME", "KNOTS" + std::to_string(d));
		std::string e("END"); e.resize(80, ' '); h += e;
		pad(h, ' ');
		std::string data;
		for (long k = 0; k <= N; k++) {
			double v = (double)k;
			uint64_t u; memcpy(&u, &v, 8);
			for (int b = 7; b >= 0; b--) data.push_back((char)((u >> (8*b)) & 0xff));
		}
		pad(data, '\0');
		out += h + data;
	}
	FILE* f = fopen(path, "wb");
	fwrite(out.data(), 1, out.size(), f);
	fclose(f);

	photospline::splinetable<> t;
	try {
		t.read_fits(path);
	} catch (std::exception& ex) {
		printf("read failed cleanly: %s\n", ex.what());
		return 0;
	}
	printf("read SUCCEEDED: ndim=%u, naxes[0]=%llu, total ncoeffs=%llu\n", t.get_ndim(),
	       (unsigned long long)t.get_ncoeffs(0), (unsigned long long)t.get_ncoeffs());
	double x[4] = {30000.5, 30000.5, 30000.5, 30000.5};
	fflush(stdout);
	double v = t(x); //reads far outside the zero-length coefficient array
	printf("value %g\n", v);
	return 1;
}
