#!/bin/sh
# usage: run.sh <photospline tree>   (exit 1 on a tree without the fix: the crafted file loads and evaluation crashes)
SRC=${1:-/repo}; OUT=$(mktemp -d); trap 'rm -rf "$OUT"' EXIT
H=$(dirname "$(readlink -f "$0")")
g++ -std=gnu++11 -O1 -g -w -I"$SRC/include" "$H/demo.cpp" "$SRC"/src/core/*.cpp -lcfitsio -lpthread -o "$OUT/demo" || exit 2
"$OUT/demo" "$OUT/overflow.fits"; rc=$?
[ $rc = 0 ] && echo PASS || echo "FAIL (exit $rc): a file whose axis lengths multiply to 2^64 is accepted with an empty coefficient array"
[ $rc = 0 ]
