// convolution identity: table.convolve(...) vs numerical integral of s(x-t) K(t) dt, K = unit-area B-spline on the kernel knots
#include <photospline/splinetable.h>
#include <photospline/bspline.h>
#include <cstdio>
#include <cmath>
#include <random>
int main(int argc,char**argv){
	std::mt19937 rng(7);
	std::uniform_real_distribution<double> U(0,1);
	int bad=0,total=0; double worst=0;
	for(uint32_t order=0;order<=5;order++) for(size_t n=2;n<=6;n++) for(int rep=0;rep<2;rep++){
		std::vector<uint32_t> orders{order};
		std::vector<std::vector<double>> knots(1), coords(1);
		size_t nk=16+2*order; double t=-2;
		for(size_t j=0;j<nk;j++){ knots[0].push_back(t); t+=0.15+0.35*U(rng);} // irregular
		double lo=knots[0][order], hi=knots[0][nk-order-1];
		const int N=60;
		for(int j=0;j<N;j++) coords[0].push_back(lo+(hi-lo)*(j+0.5)/N);
		photospline::ndsparse data(N,1); std::vector<double> w(N,1.);
		for(unsigned j=0;j<(unsigned)N;j++){ unsigned idx[1]={j}; data.insertEntry(1.0+std::sin(3*coords[0][j])+0.3*U(rng),idx);} 
		photospline::splinetable<> s; s.fit(data,w,coords,orders,knots,{1e-8},{order>0?1u:0u},photospline::splinetable<>::no_monodim,false);
		photospline::splinetable<> c; c.fit(data,w,coords,orders,knots,{1e-8},{order>0?1u:0u},photospline::splinetable<>::no_monodim,false);
		std::vector<double> k; double kt=-0.3*U(rng)-0.05; for(size_t j=0;j<n;j++){ k.push_back(kt); kt+=0.05+0.25*U(rng);} // asymmetric kernel
		c.convolve(0,k.data(),n);
		// padded kernel knots for bspline(): order n-2 on exactly n knots, basis function 0
		int korder=(int)n-2;
		auto K=[&](double tt){ double B=photospline::bspline(k.data(),tt,0,korder); return B*(korder+1)/(k[n-1]-k[0]); };
		auto S=[&](double x)->double{ int cen; if(!s.searchcenters(&x,&cen)) return 0; return s.ndsplineeval(&x,&cen,0); };
		for(int p=0;p<25;p++){
			double x=lo+0.9+(hi-lo-1.8)*(p+0.5)/25; // stay where s is fully supported for all x-t
			int cen; if(!c.searchcenters(&x,&cen)) continue;
			double got=c.ndsplineeval(&x,&cen,0);
			const int M=4000; double a=k[0], b=k[n-1], h=(b-a)/M, sum=0;
			for(int m=0;m<=M;m++){ double tt=a+m*h; double wgt=(m==0||m==M)?1:(m%2?4:2); sum+=wgt*S(x-tt)*K(tt);} 
			double want=sum*h/3;
			double err=std::fabs(got-want); total++; if(err>worst) worst=err;
			if(err>2e-3*(1+std::fabs(want))){ if(bad<12) printf("order %u kernel %zu knots x=%.3f: convolve %.5f integral %.5f\n",order,n,x,got,want); bad++; }
		}
	}
	printf("%d of %d points disagree, worst error %.3g\n",bad,total,worst);
	return bad?1:0;
}
