#!/bin/sh
# usage: run.sh <photospline tree>   (exit 1 = convolve disagrees with the numerical integral; on a tree without the fix: all even orders negated)
set -e
SRC=${1:-/repo}; OUT=$(mktemp -d); trap 'rm -rf "$OUT"' EXIT
INC="-I$SRC/include -I/usr/include/suitesparse"; DEFS="-DPHOTOSPLINE_INCLUDES_SPGLAM"
for f in "$SRC"/src/fitter/*.c; do gcc -std=gnu99 -O1 -w $DEFS $INC -I"$SRC/src/fitter" -c "$f" -o "$OUT/$(basename "$f" .c).o"; done
g++ -std=gnu++11 -O1 -w $DEFS $INC "$(dirname "$0")/demo.cpp" "$SRC"/src/core/*.cpp "$OUT"/*.o -lcfitsio -lspqr -lcholmod -lpthread -lm -o "$OUT/demo"
"$OUT/demo" | tail -14
