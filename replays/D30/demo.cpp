// Property check: a fit with a monotonic dimension has coefficients that are
// non-decreasing along that dimension, for every choice of that dimension,
// and agrees with the unconstrained fit when the constraint is inactive.
#include <cmath>
#include <cstdio>
#include <cstdlib>
#include <vector>
#include <random>

#include "photospline/splinetable.h"

using photospline::splinetable;

struct Config {
	std::vector<size_t> nknots;   // per dimension
	std::vector<size_t> nsamples; // per dimension
	uint32_t order;
	uint32_t monodim;
	int shape;    // 0: saturating increasing, 1: noisy, 2: decreasing
	double smooth;
};

static double truth(const std::vector<double>& x, uint32_t monodim, int shape,
    std::mt19937& rng)
{
	// x[d] in [0,1]. Along monodim: offset + saturating rise (concave), so
	// that the increments between successive coefficients shrink.
	double amp = 1.0;
	for (size_t d = 0; d < x.size(); d++)
		if (d != monodim)
			amp *= (1.0 + 0.5*std::sin(3.0*x[d] + d));
	double t = x[monodim];
	double v;
	switch (shape) {
	case 0: v = amp*(5.0 + 1.0 - std::exp(-4.0*t)); break;
	case 1: {
		std::normal_distribution<double> n(0, 0.3);
		v = amp*(2.0 + 1.0 - std::exp(-4.0*t)) + n(rng);
		break;
	}
	default: v = amp*(3.0 - 2.0*t + 0.5*std::sin(9*t)); break;
	}
	return v;
}

static bool run(const Config& cfg, int id)
{
	const uint32_t dim = cfg.nknots.size();
	std::vector<uint32_t> orders(dim, cfg.order);
	std::vector<std::vector<double> > knots(dim), coords(dim);
	for (uint32_t d = 0; d < dim; d++) {
		// knots extend beyond [0,1] so the data region is fully supported
		size_t nk = cfg.nknots[d];
		double lo = -0.3, hi = 1.3;
		for (size_t j = 0; j < nk; j++)
			knots[d].push_back(lo + (hi - lo)*j/(nk - 1));
		for (size_t j = 0; j < cfg.nsamples[d]; j++)
			coords[d].push_back((j + 0.5)/cfg.nsamples[d]);
	}
	size_t total = 1;
	for (uint32_t d = 0; d < dim; d++)
		total *= cfg.nsamples[d];

	std::mt19937 rng(1234 + id);
	photospline::ndsparse data(total, dim);
	std::vector<double> weights(total, 1.0);
	std::vector<unsigned int> idx(dim, 0);
	std::vector<double> x(dim);
	for (size_t n = 0; n < total; n++) {
		size_t r = n;
		for (int d = dim - 1; d >= 0; d--) {
			idx[d] = r % cfg.nsamples[d];
			r /= cfg.nsamples[d];
		}
		for (uint32_t d = 0; d < dim; d++)
			x[d] = coords[d][idx[d]];
		data.insertEntry(truth(x, cfg.monodim, cfg.shape, rng), idx.data());
	}

	std::vector<double> smoothing(1, cfg.smooth);
	std::vector<uint32_t> porder(1, std::min<uint32_t>(2, cfg.order));

	splinetable<> mono;
	mono.fit(data, weights, coords, orders, knots, smoothing, porder,
	    cfg.monodim, false);

	bool ok = true;
	const float* c = mono.get_coefficients();
	const uint64_t nm = mono.get_ncoeffs(cfg.monodim);
	const uint64_t sm = mono.get_stride(cfg.monodim);
	const uint64_t ntot = mono.get_ncoeffs();
	double worst = 0;
	for (uint64_t i = 0; i < ntot; i++) {
		uint64_t j = (i / sm) % nm;
		if (j == 0)
			continue;
		double drop = (double)c[i - sm] - (double)c[i];
		if (drop > worst)
			worst = drop;
	}
	if (worst > 0) {
		printf("  [%d] coefficients DECREASE along monodim by up to %g\n",
		    id, worst);
		ok = false;
	}

	// The surface itself, sampled on a fine grid inside the supported region
	{
		const int N = 25;
		std::vector<double> p(dim);
		std::vector<int> cen(dim);
		size_t npts = 1;
		for (uint32_t d = 0; d < dim; d++)
			if (d != cfg.monodim)
				npts *= 5;
		double worstEval = 0;
		// stay inside the fully supported region of the monotonic dimension
		const double mlo = std::max(0.02, mono.lower_extent(cfg.monodim));
		const double mhi = std::min(0.98, mono.upper_extent(cfg.monodim)) - 1e-9;
		for (size_t n = 0; n < npts; n++) {
			size_t r = n;
			for (uint32_t d = 0; d < dim; d++) {
				if (d == cfg.monodim)
					continue;
				p[d] = 0.3 + 0.1*(r % 5);
				r /= 5;
			}
			double prev = 0;
			for (int s = 0; s < N; s++) {
				p[cfg.monodim] = mlo + (mhi - mlo)*s/(N - 1);
				if (!mono.searchcenters(p.data(), cen.data())) {
					printf("  [%d] searchcenters failed\n", id);
					return false;
				}
				double v = mono.ndsplineeval(p.data(), cen.data(), 0);
				if (s > 0 && prev - v > worstEval)
					worstEval = prev - v;
				prev = v;
			}
		}
		if (worstEval > 1e-5) {
			printf("  [%d] surface DECREASES along monodim by up to %g\n",
			    id, worstEval);
			ok = false;
		}
	}

	// Inactive constraint: clean increasing positive data => same result as
	// the unconstrained fit.
	if (cfg.shape == 0) {
		splinetable<> plain;
		plain.fit(data, weights, coords, orders, knots, smoothing, porder,
		    splinetable<>::no_monodim, false);
		const float* u = plain.get_coefficients();
		bool inactive = true;
		for (uint64_t i = 0; i < ntot && inactive; i++) {
			uint64_t j = (i / sm) % nm;
			if (u[i] < 0 || (j > 0 && u[i] < u[i - sm]))
				inactive = false;
		}
		if (inactive) {
			double md = 0;
			for (uint64_t i = 0; i < ntot; i++)
				md = std::max(md, std::fabs((double)u[i] - (double)c[i]));
			if (md > 1e-3) {
				printf("  [%d] constraint inactive but monotonic fit differs "
				    "from plain fit by %g\n", id, md);
				ok = false;
			}
		}
	}

	printf("case %2d: ndim=%u monodim=%u order=%u shape=%d smooth=%g  naxes=",
	    id, dim, cfg.monodim, cfg.order, cfg.shape, cfg.smooth);
	for (uint32_t d = 0; d < dim; d++)
		printf("%s%llu", d ? "x" : "", (unsigned long long)mono.get_ncoeffs(d));
	printf("  -> %s\n", ok ? "ok" : "VIOLATION");
	return ok;
}

int main(int argc, char** argv)
{
	int only = argc > 1 ? atoi(argv[1]) : -1;
	std::vector<Config> cases;
	// 1-D
	for (uint32_t order = 1; order <= 4; order++)
		for (int shape = 0; shape < 3; shape++)
			cases.push_back({{16}, {60}, order, 0, shape, shape == 1 ? 1e-3 : 0.0});
	// 2-D, both choices
	for (uint32_t m = 0; m < 2; m++)
		for (int shape = 0; shape < 3; shape++)
			cases.push_back({{12, 14}, {20, 24}, 2, m, shape, 1e-6});
	// 3-D, every choice of monotonic dimension, unequal axis lengths
	// (noise-free shapes only: noisy 3-D fits run into an unrelated problem in
	// the factor-update path of the solver)
	for (uint32_t m = 0; m < 3; m++)
		for (int shape = 0; shape < 3; shape++)
			cases.push_back({{10, 13, 11}, {10, 14, 12}, 2, m, shape, 1e-6});
	for (uint32_t m = 0; m < 3; m++)
		cases.push_back({{9, 9, 9}, {10, 10, 10}, 3, m, 0, 1e-6});

	int bad = 0;
	for (size_t i = 0; i < cases.size(); i++)
		if ((only < 0 || only == (int)i) && !run(cases[i], (int)i))
			bad++;
	printf("%d of %zu cases violate the monotonic-fit property\n", bad,
	    cases.size());
	return bad ? 1 : 0;
}
