#!/bin/sh
# usage: run.sh <photospline tree>   (AddressSanitizer heap-use-after-free in recompute_factor at case 25 on a tree without 02547b4)
set -e
SRC=${1:-/repo}; OUT=$(mktemp -d); trap 'rm -rf "$OUT"' EXIT
INC="-I$SRC/include -I/usr/include/suitesparse"; DEFS="-DPHOTOSPLINE_INCLUDES_SPGLAM"
for f in "$SRC"/src/fitter/*.c; do gcc -std=gnu99 -O1 -g -w -fsanitize=address $DEFS $INC -I"$SRC/src/fitter" -c "$f" -o "$OUT/$(basename "$f" .c).o"; done
for f in "$SRC"/src/core/*.cpp; do g++ -std=gnu++11 -O1 -g -w -fsanitize=address $DEFS $INC -c "$f" -o "$OUT/$(basename "$f" .cpp).o"; done
g++ -std=gnu++11 -O1 -g -w -fsanitize=address $DEFS $INC "$(dirname "$0")/demo.cpp" "$OUT"/*.o -lcfitsio -lspqr -lcholmod -lpthread -lm -o "$OUT/demo"
OMP_NUM_THREADS=2 ASAN_OPTIONS=detect_leaks=0 timeout 900 "$OUT/demo" 2>&1 | grep -E "ERROR|#[0-6] |case|violate"
