#!/bin/sh
# usage: run.sh <photospline tree>   (exit 1 on a tree without the fix)
SRC=${1:-/repo}; OUT=$(mktemp -d); trap 'rm -rf "$OUT"' EXIT
H=$(dirname "$(readlink -f "$0")")
INC="-I$SRC/include -I/usr/include/suitesparse -DPHOTOSPLINE_INCLUDES_SPGLAM"
for f in "$SRC"/src/fitter/*.c; do gcc -std=gnu99 -O1 -w $INC -c "$f" -o "$OUT/$(basename "$f").o" || exit 2; done
for f in "$SRC"/src/core/*.cpp; do g++ -std=gnu++11 -O1 -w $INC -c "$f" -o "$OUT/$(basename "$f").o" || exit 2; done
g++ -std=gnu++11 -O1 -w $INC "$H/demo.cpp" "$OUT"/*.o -o "$OUT/demo" -lcfitsio -lspqr -lcholmod -lpthread -lm || exit 2
OPENBLAS_NUM_THREADS=1 OMP_NUM_THREADS=1 "$OUT/demo" 2>&1 | grep -v "^$"
