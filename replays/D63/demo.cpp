// D63: when the unconstrained solution is itself non-negative and non-decreasing, the monotonic fit returns the same coefficients
// (C10, second clause).  1-d fit, smooth data only for x < 0.3, smoothing along the (monotonic) dimension: the data-free region is
// released one coefficient per outer iteration of nnls_normal_block3, which gave up after a fixed 120 iterations — with more than
// about 120 data-free coefficients the rest stayed flat although the unconstrained fit is feasible.
#include <photospline/splinetable.h>
#include <cstdio>
#include <cstdlib>
#include <cmath>
#include <vector>
using namespace photospline;
static std::vector<double> mkknots(int nspl, int order){
	int nk=nspl+order+1; std::vector<double> k(nk); double h=1.0/(nspl-order);
	for(int i=0;i<nk;i++) k[i]=(i-order)*h;
	return k;
}
static double run(int nspl,int npts){
	const int order=2;
	std::vector<uint32_t> orders(1,order);
	std::vector<std::vector<double>> knots(1),coords(1);
	knots[0]=mkknots(nspl,order);
	for(int j=0;j<npts;j++) coords[0].push_back((j+0.5)/npts);
	photospline::ndsparse data(npts,1); std::vector<double> weights;
	for(unsigned i=0;i<(unsigned)npts;i++){ double x=coords[0][i]; data.insertEntry(0.2+x+0.5*x*x,&i); weights.push_back(x<0.3?1.0:0.0); }
	std::vector<double> sm(1,1e-3); std::vector<uint32_t> po(1,2);
	splinetable<> mono,free_;
	mono.fit(data,weights,coords,orders,knots,sm,po,0,false);
	free_.fit(data,weights,coords,orders,knots,sm,po,splinetable<>::no_monodim,false);
	double maxd=0; bool feasible=true;
	const float*cm=mono.get_coefficients(); const float*cf=free_.get_coefficients();
	for(size_t i=0;i<mono.get_ncoeffs();i++){
		maxd=std::max(maxd,(double)std::fabs(cm[i]-cf[i]));
		if(i>0 && cf[i]<cf[i-1]) feasible=false;
		if(i==0 && cf[i]<0) feasible=false;
	}
	printf("%d coefficients: unconstrained fit feasible: %d; max |monotonic - unconstrained| = %g\n",nspl,(int)feasible,maxd);
	return feasible?maxd:0;
}
int main(){
	double a=run(100,300), b=run(200,600), c=run(400,1200);
	bool ok=a<1e-4 && b<1e-4 && c<1e-4;
	printf(ok?"PASS\n":"FAIL: an inactive constraint changes the fit\n");
	return ok?0:1;
}
