// D60: everything handed back to the allocator must have been obtained from it (C20: "all memory obtained from its allocator is returned
// exactly once").  When one of the four allocations for a new key fails, write_key's handler released all four locals — the ones that
// were never obtained (still nullptr) included.  An allocator may only be given back what it handed out.
#include <photospline/splinetable.h>
#include <cstdio>
#include <map>
#include <new>
static std::map<void*, size_t> live; static int foreign = 0; static long countdown = -1;
template<typename T> struct strict_allocator{
	typedef T value_type;
	strict_allocator(){}
	template<typename U> strict_allocator(const strict_allocator<U>&){}
	T* allocate(size_t n){ if(countdown==0){ countdown=-1; throw std::bad_alloc(); } if(countdown>0) countdown--;
		T* p=static_cast<T*>(::operator new(n*sizeof(T)+1)); live[p]=n*sizeof(T); return p; }
	void deallocate(T* p, size_t n){
		if(!live.count(p)){ printf("  deallocate(%p, %zu): this allocator never handed that out\n",(void*)p,n); foreign++; return; }
		live.erase(p); ::operator delete(p); }
	template<typename U> bool operator==(const strict_allocator<U>&) const { return true; }
	template<typename U> bool operator!=(const strict_allocator<U>&) const { return false; }
};
int main(){
	for(long fail=0; fail<4; fail++){
		{
			photospline::splinetable<strict_allocator<void>> t;
			t.write_key("FIRST", 1);
			countdown=fail;      // the (fail+1)-th allocation of the next call fails
			printf("allocation %ld of write_key(\"SECOND\") fails:\n",fail+1);
			try{ t.write_key("SECOND", 2); printf("  accepted?\n"); }
			catch(std::exception& e){ printf("  refused (%s)\n", e.what()); }
			countdown=-1;
		}
		if(!live.empty()){ printf("  %zu block(s) outstanding after destruction\n",live.size()); foreign++; live.clear(); }
	}
	printf(foreign?"FAIL: %d release(s) of storage that was never obtained / leaks\n":"PASS\n",foreign);
	return foreign?1:0;
}
