#include <photospline/splinetable.h>
#include <cstdio>
int main(int argc,char**argv){
	photospline::splinetable<> t;
	t.permuteDimensions(std::vector<size_t>{});
	printf("permute on empty table returned, ndim=%u\n",t.get_ndim());
	return 0;
}
