#!/bin/sh
# usage: run.sh <photospline tree>  (AddressSanitizer heap-buffer-overflow at permute.h on a tree without the fix)
set -e
T=${1:-/repo}; O=$(mktemp -d); trap 'rm -rf "$O"' EXIT
g++ -std=gnu++17 -g -O0 -fsanitize=address,undefined -I$T/include -I/usr/include/suitesparse "$(dirname "$0")/demo.cpp" $T/src/core/*.cpp -o $O/demo -lcfitsio -lpthread
$O/demo 2>&1 | grep -E "returned|ERROR|runtime error|#[0-2] " | head -8
