#!/bin/sh
# usage: run.sh <photospline tree>
set -e
T=${1:-/repo}; O=$(mktemp -d); trap 'rm -rf "$O"' EXIT
sed "s#/tmp/d36/t.fits#$O/t.fits#g" "$(dirname "$0")/demo.cpp" > $O/demo.cpp
g++ -std=gnu++17 -O1 -g -I$T/include -I/usr/include/suitesparse $O/demo.cpp $T/src/core/*.cpp -o $O/demo -lcfitsio -lpthread
$O/demo | tail -6
