// derivative orders >= 2 exactly on knots: same one-sided convention as plain evaluation?
#include <photospline/splinetable.h>
#include <cstdio>
#include <cmath>
#include <fitsio.h>
static void make(const char* path,int order,int ncoef,const std::vector<double>& knots,const std::vector<float>& c){
	fitsfile* f; int st=0; remove(path);
	fits_create_file(&f,path,&st); long nax[1]={ncoef};
	fits_create_img(f,FLOAT_IMG,1,nax,&st); long fp[1]={1};
	fits_write_pix(f,TFLOAT,fp,ncoef,(void*)c.data(),&st);
	fits_write_key(f,TINT,"ORDER0",&order,NULL,&st);
	long kn[1]={(long)knots.size()}; fits_create_img(f,DOUBLE_IMG,1,kn,&st);
	char n[]="KNOTS0"; fits_update_key(f,TSTRING,"EXTNAME",n,NULL,&st);
	fits_write_pix(f,TDOUBLE,fp,knots.size(),(void*)knots.data(),&st);
	fits_close_file(f,&st); if(st){fits_report_error(stderr,st);exit(2);} }
int main(){
	int bad=0;
	for(int order=1;order<=4;order++){
		int ncoef=order+5, nk=ncoef+order+1;
		std::vector<double> knots; double t=0; for(int j=0;j<nk;j++){ knots.push_back(t); t+=0.5+0.3*((j*7)%3);} 
		std::vector<float> c; for(int j=0;j<ncoef;j++) c.push_back(1.0f+0.5f*j*j-0.3f*j*((j%3)-1));
		make("/tmp/d36/t.fits",order,ncoef,knots,c);
		photospline::splinetable<> s("/tmp/d36/t.fits");
		for(unsigned d=0; d<=(unsigned)order; d++){
			for(int k=order;k<=nk-order-1;k++){
				double x=knots[k]; int cen; if(!s.searchcenters(&x,&cen)) continue;
				unsigned dv[1]={d};
				double at=s.ndsplineeval_deriv(&x,&cen,dv);
				// the convention of plain evaluation: right piece below the upper end of the supported range, left piece at it
				bool top = (k==nk-order-1);
				double xe = top ? x-1e-7 : x+1e-7; int ce; s.searchcenters(&xe,&ce);
				double near=s.ndsplineeval_deriv(&xe,&ce,dv);
				double tol=1e-2*(1+std::fabs(near));
				if(std::fabs(at-near)>tol){ printf("order %d derivative %u at knot %d%s: on the knot %.6g, just %s it %.6g\n",order,d,k,top?" (upper end)":"",at,top?"below":"above",near); bad++; }
			}
		}
	}
	printf("%d disagreements\n",bad); return bad?1:0;
}
