#!/bin/sh
# usage: run.sh <photospline tree>  (LeakSanitizer report + "gone" on a tree without the fix)
set -e
T=${1:-/repo}; O=$(mktemp -d); trap 'rm -rf "$O"' EXIT
g++ -std=gnu++17 -g -O0 -fsanitize=address -I$T/include -I/usr/include/suitesparse "$(dirname "$0")/demo.cpp" $T/src/core/*.cpp -o $O/demo -lcfitsio -lpthread
$O/demo $T/test/test_data/test_spline_1d.fits 2>&1 | grep -E "read refused|after the read|ERROR: LeakSanitizer|SUMMARY" 
