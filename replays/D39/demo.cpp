// keys written to a table that has no spline yet, then a read into it: nothing may leak or be lost silently
#include <photospline/splinetable.h>
#include <cstdio>
int main(int argc,char**argv){
	photospline::splinetable<> t;
	t.write_key("EARLY",7);
	bool refused=false;
	try{ t.read_fits(argv[1]); }catch(std::exception& e){ refused=true; printf("read refused: %s\n",e.what()); }
	int v=0; bool have=t.read_key("EARLY",v);
	printf("after the read: ndim=%u, key EARLY %s\n",t.get_ndim(),have?"still there":"gone");
	return (refused && have) || (!refused && have) ? 0 : 1;   // the key may not vanish
}
