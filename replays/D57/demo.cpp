// D57: grid evaluation must agree with pointwise evaluation (C17) on every table the reader accepts; a repeated interior knot is
// legal (non-decreasing knots).  The fitter's private Cox-de Boor recursion divided 0 by a zero knot span: every grid value NaN.
#include <photospline/splinetable.h>
#include <fitsio.h>
#include <cstdio>
#include <cmath>
#include <vector>
#include <string>
int main(int argc,char**argv){
	std::string path=std::string(argv[1])+"/rk.fits";
	int bad=0;
	for(int order=1; order<=3; order++){
		std::vector<double> knots={0,1,2,3,3,4,5,6,7,8,9};
		std::vector<float> coeffs(knots.size()-order-1); for(size_t i=0;i<coeffs.size();i++) coeffs[i]=1+i;
		fitsfile* f; int st=0; long n=coeffs.size(), one=1;
		fits_create_file(&f,("!"+path).c_str(),&st);
		fits_create_img(f,FLOAT_IMG,1,&n,&st);
		fits_write_pix(f,TFLOAT,&one,n,coeffs.data(),&st);
		char type[]="Spline Coefficient Table";
		fits_write_key(f,TSTRING,"TYPE",type,NULL,&st);
		fits_write_key(f,TINT,"ORDER0",&order,NULL,&st);
		long nk=knots.size();
		fits_create_img(f,DOUBLE_IMG,1,&nk,&st);
		char en[]="KNOTS0"; fits_update_key(f,TSTRING,"EXTNAME",en,NULL,&st);
		fits_write_pix(f,TDOUBLE,&one,nk,knots.data(),&st);
		fits_close_file(f,&st);
		if(st){ fits_report_error(stderr,st); return 2; }
		photospline::splinetable<> t(path);
		std::vector<std::vector<double>> grid={{1.5,2.5,2.999,3.0,3.25,3.5,4.5,5.5}};
		auto nd=t.grideval(grid);
		std::vector<double> g(grid[0].size(),0.0);
		for(size_t r=0;r<nd->rows;r++) g[nd->i[0][r]]=nd->x[r];
		for(size_t k=0;k<grid[0].size();k++){
			double x=grid[0][k], p=t(&x);
			bool ok=std::abs(g[k]-p)<=1e-5*(1+std::abs(p));
			if(!ok){ bad++; printf("order %d x=%g: grid %g, pointwise %g\n",order,x,g[k],p); }
		}
	}
	printf(bad?"FAIL: %d grid values differ from pointwise evaluation\n":"PASS\n",bad);
	return bad?1:0;
}
