#!/bin/sh
# usage: run.sh <photospline tree>   (SIGSEGV / ASan SEGV in operator== on a tree without the fix)
SRC=${1:-/repo}; OUT=$(mktemp -d); trap 'rm -rf "$OUT"' EXIT
g++ -std=gnu++11 -g -O0 -fsanitize=address -w -I"$SRC/include" -I/usr/include/suitesparse "$(dirname "$0")/demo.cpp" "$SRC"/src/core/fitsio.cpp "$SRC"/src/core/bspline.cpp -o "$OUT/demo" -lcfitsio -lpthread || exit 2
"$OUT/demo" 2>&1 | grep -E "comparing|equal|empty vs|ERROR|#[0-3] " | head -8
