// D44: operator== on two empty tables (default-constructed, moved-from, or left empty by a failed read) dereferences the null
// coefficient array: get_ncoeffs() is the empty product 1 when ndim == 0.
#include <photospline/splinetable.h>
#include <cstdio>
int main(){
	photospline::splinetable<> a, b;
	printf("comparing two empty tables...\n"); fflush(stdout);
	bool eq = (a == b);
	printf("equal: %d\n", (int)eq);
	photospline::splinetable<> c;
	try{ c.read_fits("/nonexistent/file.fits"); }catch(std::exception& e){ printf("read failed as expected\n"); }
	printf("empty vs failed-read: %d, != : %d\n", (int)(a == c), (int)(a != c));
	return eq ? 0 : 1;
}
