// Observation on the unchanged code: evaluation puts arrays whose length is the
// spline order on the stack (localbasis_store in ndsplineeval, delta_l/delta_r in
// bsplvb_simple). A perfectly consistent 1-d file of order 1100000 is accepted by
// the reader and overflows the (8 MB) stack on the first evaluation.
#include <photospline/splinetable.h>
#include <cstdio>
#include <string>
#include <vector>
#include <cstring>
#include <stdint.h>

static std::string card(const std::string& key, const std::string& val){
	char buf[81];
	snprintf(buf, sizeof(buf), "%-8s= %20s", key.c_str(), val.c_str());
	std::string s(buf);
	s.resize(80, ' ');
	return s;
}
static std::string scard(const std::string& key, const std::string& val){
	char buf[81];
	snprintf(buf, sizeof(buf), "%-8s= '%-8s'", key.c_str(), val.c_str());
	std::string s(buf);
	s.resize(80, ' ');
	return s;
}
static void pad(std::string& s, char c){
	while (s.size() % 2880) s.push_back(c);
}

int main(int argc, char* argv[]){
	const char* path = argc > 1 ? argv[1] : "bigorder.fits";
	const long O = 1100000;
	const long NC = O + 1;       //coefficients
	const long NK = 2*O + 2;     //knots
	std::string out;
	{
		std::string h;
		h += card("SIMPLE", "T");
		h += card("BITPIX", "-32");
		h += card("NAXIS", "1");
		h += card("NAXIS1", std::to_string(NC));
		h += card("EXTEND", "T");
		h += card("ORDER0", std::to_string(O));
		std::string e("END"); e.resize(80, ' '); h += e;
		pad(h, ' ');
		std::string data(4*NC, '\0');
		pad(data, '\0');
		out += h + data;
	}
	{
		std::string h;
		h += scard("XTENSION", "IMAGE");
		h += card("BITPIX", "-64");
		h += card("NAXIS", "1");
		h += card("NAXIS1", std::to_string(NK));
		h += card("PCOUNT", "0");
		h += card("GCOUNT", "1");
		h += scard("EXTNAME", "KNOTS0");
		std::string e("END"); e.resize(80, ' '); h += e;
		pad(h, ' ');
		std::string data;
		data.reserve(8*NK+2880);
		for (long k = 0; k < NK; k++) {
			double v = (double)k;
			uint64_t u; memcpy(&u, &v, 8);
			for (int b = 7; b >= 0; b--) data.push_back((char)((u >> (8*b)) & 0xff));
		}
		pad(data, '\0');
		out += h + data;
	}
	FILE* f = fopen(path, "wb");
	fwrite(out.data(), 1, out.size(), f);
	fclose(f);

	photospline::splinetable<> t;
	try {
		t.read_fits(path);
	} catch (std::exception& ex) {
		printf("read failed cleanly: %s\n", ex.what());
		return 0;
	}
	printf("read SUCCEEDED: ndim=%u, order=%u, ncoeffs=%llu, nknots=%llu\n", t.get_ndim(), t.get_order(0),
	       (unsigned long long)t.get_ncoeffs(0), (unsigned long long)t.get_nknots(0));
	fflush(stdout);
	double x[1] = {O + 0.5};
	int c[1];
	if (!t.searchcenters(x, c)) { printf("lookup refused\n"); return 0; }
	printf("center %d\n", c[0]); fflush(stdout);
	double v = t.ndsplineeval(x, c, 0);
	printf("value %g\n", v);
	return 1;
}
