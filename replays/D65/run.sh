#!/bin/sh
# usage: run.sh <photospline tree>   (exit 1 while the defect is present: a consistent file with a huge order loads and evaluation overruns the stack)
SRC=${1:-/repo}; OUT=$(mktemp -d); trap 'rm -rf "$OUT"' EXIT
H=$(dirname "$(readlink -f "$0")")
g++ -std=gnu++11 -O1 -g -w -I"$SRC/include" "$H/demo.cpp" "$SRC"/src/core/*.cpp -lcfitsio -lpthread -o "$OUT/demo" || exit 2
"$OUT/demo" "$OUT/order.fits"; rc=$?
[ $rc = 0 ] && echo PASS || echo "FAIL (exit $rc)"
[ $rc = 0 ]
