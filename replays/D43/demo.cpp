// Observation probe: second derivative of an order-2 spline at a knot inside the right margin.
#include <photospline/splinetable.h>
#include <cstdio>
#include <vector>
int main(int argc,char**argv){
	std::string path=std::string(argv[1])+"/t.fits";
	std::vector<double> knots{0,1,2,3,4,5,6,7.5,9}; // order 2: ncoeffs 6, full support [2,6], right margin (6,9]
	std::vector<float> c{1,-2,4,0.5,3,-1};
	int status=0; fitsfile*f; fits_create_file(&f,("!"+path).c_str(),&status);
	long n=c.size(); fits_create_img(f,FLOAT_IMG,1,&n,&status); long one=1;
	fits_write_pix(f,TFLOAT,&one,n,c.data(),&status);
	int o=2; fits_write_key(f,TINT,"ORDER0",&o,NULL,&status);
	long nk=knots.size(); fits_create_img(f,DOUBLE_IMG,1,&nk,&status);
	fits_update_key(f,TSTRING,"EXTNAME",(void*)"KNOTS0",NULL,&status);
	fits_write_pix(f,TDOUBLE,&one,nk,knots.data(),&status); fits_close_file(f,&status);
	if(status){fits_report_error(stderr,status);return 2;}
	photospline::splinetable<> t(path);
	for(double x : {5.5, 6.0, 6.5, 7.5, 7.5-1e-9, 7.5+1e-9, 8.0, 9.0}){
		int cen; if(!t.searchcenters(&x,&cen)){printf("x=%g rejected\n",x);continue;}
		unsigned d0=0,d1=1,d2=2;
		double h=1e-4, xm=x-h, xmm=x-2*h; int cm,cmm; t.searchcenters(&xm,&cm); t.searchcenters(&xmm,&cmm);
		printf("x=%.10g center=%d value=%.7g d1(mask)=%.7g d1(deriv)=%.7g d2(deriv)=%.7g  left-FD d2=%.5g\n",x,cen,
		  t.ndsplineeval(&x,&cen,0), t.ndsplineeval(&x,&cen,1), t.ndsplineeval_deriv(&x,&cen,&d1), t.ndsplineeval_deriv(&x,&cen,&d2),
		  (t.ndsplineeval<double>(&x,&cen,0)-2*t.ndsplineeval<double>(&xm,&cm,0)+t.ndsplineeval<double>(&xmm,&cmm,0))/(h*h));
	}
}
