#!/bin/sh
# usage: run.sh <photospline tree>
# order-2 table on knots {0,1,2,3,4,5,6,7.5,9} (fully supported up to 6, right margin (6,9]): the second derivative from ndsplineeval_deriv
# at the knot 7.5 inside the right margin and at the last knot 9 is compared with a left finite difference of the value.
# On a tree without the fix: d2 = -0.4444 at 7.5 (left piece: 2.5778) and 0 at 9 (left piece: -0.4444).
set -e
SRC=${1:-/repo}; OUT=$(mktemp -d); trap 'rm -rf "$OUT"' EXIT
g++ -std=gnu++11 -O1 -g -w -I"$SRC/include" -I/usr/include/suitesparse "$(dirname "$0")/demo.cpp" "$SRC"/src/core/bspline.cpp "$SRC"/src/core/fitsio.cpp -o "$OUT/demo" -lcfitsio -lpthread
"$OUT/demo" "$OUT" | cut -c1-200
