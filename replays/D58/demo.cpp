// D58: convolution with a unit-area kernel (C14, "for every spline order >= 0").  A table whose coefficients are all one is the
// constant 1 on its fully supported range, and so is its convolution with any unit-area kernel.  The normalisation q!(k-1)!/(k+q-1)!
// was formed from `unsigned int` factorials: 13! does not fit, so from order + kernel knots - 1 >= 13 on every value was off.
#include <photospline/splinetable.h>
#include <fitsio.h>
#include <cstdio>
#include <cmath>
#include <vector>
#include <string>
static int check(const std::string& dir,int order,int nkernel){
	std::string path=dir+"/t.fits";
	std::vector<double> knots; for(int k=0;k<40;k++) knots.push_back(k*0.5+0.01*k*k);
	std::vector<float> coeffs(knots.size()-order-1,1.0f);
	fitsfile* f; int st=0; long n=coeffs.size(), one=1;
	fits_create_file(&f,("!"+path).c_str(),&st);
	fits_create_img(f,FLOAT_IMG,1,&n,&st);
	fits_write_pix(f,TFLOAT,&one,n,coeffs.data(),&st);
	char type[]="Spline Coefficient Table";
	fits_write_key(f,TSTRING,"TYPE",type,NULL,&st);
	fits_write_key(f,TINT,"ORDER0",&order,NULL,&st);
	long nk=knots.size();
	fits_create_img(f,DOUBLE_IMG,1,&nk,&st);
	char en[]="KNOTS0"; fits_update_key(f,TSTRING,"EXTNAME",en,NULL,&st);
	fits_write_pix(f,TDOUBLE,&one,nk,knots.data(),&st);
	fits_close_file(f,&st);
	if(st){ fits_report_error(stderr,st); return 2; }
	photospline::splinetable<> t(path);
	std::vector<double> kernel; for(int j=0;j<nkernel;j++) kernel.push_back(-0.4+0.17*j+0.01*j*j);
	t.convolve(0,kernel.data(),kernel.size());
	int bad=0; double worst=0;
	for(int s=0;s<200;s++){
		double x=knots[order+nkernel+2]+ (knots[knots.size()-order-nkernel-3]-knots[order+nkernel+2])*s/199.0;
		double v=t(&x);
		if(!(std::abs(v-1)<=1e-4)){ bad++; if(!(std::abs(v-1)<=worst)) worst=std::abs(v-1); }
	}
	printf("order %d, %d kernel knots (order after convolution %u): %d of 200 interior values differ from 1 (worst %g)\n",order,nkernel,t.get_order(0),bad,worst);
	return bad;
}
int main(int argc,char**argv){
	int bad=0;
	bad+=check(argv[1],5,6);
	bad+=check(argv[1],7,6);
	bad+=check(argv[1],8,6);   // 13! needed
	bad+=check(argv[1],10,4);  // 13! needed
	bad+=check(argv[1],12,6);
	printf(bad?"FAIL\n":"PASS\n");
	return bad?1:0;
}
