// D61: a key that write_key accepts must survive a FITS round trip (C16).  PCOUNT and GCOUNT are structural keywords of every HDU:
// cfitsio parses them as integers whenever the HDU is opened, and the string card an auxiliary entry produces makes the whole
// file unopenable (status 407).
#include <photospline/splinetable.h>
#include <cstdio>
#include <cstdlib>
int main(int argc,char**argv){
	int bad=0;
	const char* keys[]={"PCOUNT","GCOUNT"};
	const char* vals[]={"0","7","text"};
	for(const char* k: keys) for(const char* v: vals){
		photospline::splinetable<> t(argv[1]);
		bool accepted=true;
		try{ t.write_key(k,std::string(v)); }catch(std::exception&){ accepted=false; }
		if(!accepted){ std::printf("%s=%s: rejected\n",k,v); continue; }
		std::pair<void*,size_t> buf=t.write_fits_mem();
		photospline::splinetable<> u;
		bool ok=true; std::string why;
		try{ ok=u.read_fits_mem(buf.first,buf.second); }catch(std::exception& e){ ok=false; why=e.what(); }
		free(buf.first);
		std::string back;
		if(ok && !(u==t)) { ok=false; why="loads as a different table"; }
		if(ok && (!u.read_key(k,back) || back.substr(0,std::string(v).size())!=v)) { ok=false; why="key lost"; }
		std::printf("%s=%s: accepted, round trip %s %s\n",k,v,ok?"ok":"FAILED:",why.c_str());
		if(!ok) bad++;
	}
	return bad?1:0;
}
