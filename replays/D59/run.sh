#!/bin/bash
# usage: run.sh <photospline tree>   (exit 1 on a tree without the fix; built with AddressSanitizer)
SRC=${1:-/repo}; OUT=$(mktemp -d); trap 'rm -rf "$OUT"' EXIT
g++ -std=gnu++11 -g -O1 -w -fsanitize=address -I"$SRC/include" -I/usr/include/suitesparse "$(dirname "$(readlink -f "$0")")/demo.cpp" "$SRC"/src/core/*.cpp -o "$OUT/demo" -lcfitsio -lpthread || exit 2
"$OUT/demo" "$SRC/test/test_data/test_spline_2d.fits" 2>&1 | grep -v "^    #\|^$\|^0x\|^  \[\|Shadow\|^  0x\|^=>\|^  [A-Z]" | head -8
exit ${PIPESTATUS:-$?}
