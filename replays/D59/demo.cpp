// D59: the kernel handed to convolve may be any n >= 2 increasing numbers — a slice of the table's own knot vector included
// (t.convolve(0, t.get_knots(0)+2, 3)).  convolve read conv_knots[0] once more after it had released the table's knot arrays:
// heap-use-after-free under ASan, and the upper extent shifted by whatever the freed block then held.
#include <photospline/splinetable.h>
#include <cstdio>
#include <cmath>
#include <vector>
int main(int argc,char**argv){
	photospline::splinetable<> a(argv[1]), b(argv[1]);
	std::vector<double> copy(a.get_knots(0)+2,a.get_knots(0)+5);
	a.convolve(0,copy.data(),copy.size());             // kernel in storage of its own
	b.convolve(0,b.get_knots(0)+2,3);                   // the same numbers, read from the table's own knots
	bool same=(a==b) && a.upper_extent(0)==b.upper_extent(0) && a.lower_extent(0)==b.lower_extent(0);
	printf("upper extent: separate kernel %.17g, aliasing kernel %.17g -> %s\n",a.upper_extent(0),b.upper_extent(0),same?"same table":"DIFFERENT");
	return same?0:1;
}
