#!/bin/sh
# usage: run.sh <photospline tree>   (prints UBSan's "variable length array bound evaluates to non-positive value 0" on a tree without the fix)
set -e
SRC=${1:-/repo}; OUT=$(mktemp -d); trap 'rm -rf "$OUT"' EXIT
INC="-I$SRC/include -I/usr/include/suitesparse"; DEFS="-DPHOTOSPLINE_INCLUDES_SPGLAM"
for f in "$SRC"/src/fitter/*.c; do clang -std=gnu99 -O0 -g -w -fsanitize=vla-bound $DEFS $INC -I"$SRC/src/fitter" -c "$f" -o "$OUT/$(basename "$f" .c).o"; done
clang -std=gnu99 -O0 -g -w -fsanitize=vla-bound $DEFS $INC -I"$SRC/src/fitter" -I"$SRC/include/photospline/detail" "$(dirname "$0")/demo.c" "$OUT"/*.o -lspqr -lcholmod -lpthread -lm -lstdc++ -o "$OUT/demo"
"$OUT/demo" 2>&1 | grep -E "runtime error|penalty" | sort | uniq -c
