/* D41: an order-0 spline fitted with a penalty of order 0 (an admitted fit: penalty order <= spline order)
 * makes divided_diffs declare `double a[order], b[order]` with order == 0: a zero-length variable-length
 * array, undefined behaviour in C99 (6.7.5.2p5). Seen with -fsanitize=vla-bound. */
#include <stdio.h>
#include <stdlib.h>
#include <stdint.h>
#include <cholmod.h>
#include "splineutil.h"

cholmod_sparse* calc_penalty(uint64_t* nsplines, double* knots, uint32_t ndim, uint32_t dim, uint32_t order,
    uint32_t porder, int mono, cholmod_common* c);

int main(void)
{
	cholmod_common c;
	cholmod_l_start(&c);
	double knots[6] = {0, 1, 2, 3, 4, 5};
	uint64_t nsplines[1] = {5}; /* nknots - order - 1 */
	cholmod_sparse* p = calc_penalty(nsplines, knots, 1, 0, 0, 0, 0, &c);
	printf("penalty %p (%ld x %ld)\n", (void*)p, p ? (long)p->nrow : 0L, p ? (long)p->ncol : 0L);
	if (p) cholmod_l_free_sparse(&p, &c);
	cholmod_l_finish(&c);
	return 0;
}
