/* mk out.fits order:nknots[,order:nknots...]  : builds a valid spline table file with cfitsio directly */
#include <fitsio.h>
#include <stdio.h>
#include <stdlib.h>
#include <string.h>
int main(int argc,char**argv){
  int nd=0,ord[8];long nk[8],nax[8];
  char*s=strdup(argv[2]);for(char*t=strtok(s,",");t;t=strtok(NULL,",")){sscanf(t,"%d:%ld",&ord[nd],&nk[nd]);nd++;}
  int naux=argc>3?atoi(argv[3]):0;
  long ne=1;for(int i=0;i<nd;i++){nax[i]=nk[nd-1-i]-ord[nd-1-i]-1;ne*=nax[i];}
  fitsfile*f;int st=0;char nm[300];snprintf(nm,300,"!%s",argv[1]);
  fits_create_file(&f,nm,&st);fits_create_img(f,FLOAT_IMG,nd,nax,&st);
  float*c=malloc(ne*sizeof(float));for(long i=0;i<ne;i++)c[i]=1.0f+(float)((i*2654435761u)%100003)/7.0f;
  long fp[8]={1,1,1,1,1,1,1,1};fits_write_pix(f,TFLOAT,fp,ne,c,&st);
  fits_write_key(f,TSTRING,"TYPE","Spline Coefficient Table",NULL,&st);
  for(int i=0;i<nd;i++){char k[20];sprintf(k,"ORDER%d",i);fits_write_key(f,TINT,k,&ord[i],NULL,&st);}
  for(int i=0;i<nd;i++){char k[20];double z=0;sprintf(k,"PERIOD%d",i);fits_write_key(f,TDOUBLE,k,&z,NULL,&st);}
  for(int i=0;i<naux;i++){char k[20],v[40];sprintf(k,"AUX%d",i);sprintf(v,"value %d",i);fits_write_key(f,TSTRING,k,v,NULL,&st);}
  double ext[16];
  for(int i=0;i<nd;i++){fits_create_img(f,DOUBLE_IMG,1,&nk[i],&st);char k[20];sprintf(k,"KNOTS%d",i);fits_update_key(f,TSTRING,"EXTNAME",k,NULL,&st);
    double*kv=malloc(nk[i]*sizeof(double));for(long j=0;j<nk[i];j++)kv[j]=-3.0*nk[i]+j*0.5+i; long p=1;fits_write_pix(f,TDOUBLE,&p,nk[i],kv,&st);
    ext[2*i]=kv[ord[i]];ext[2*i+1]=kv[nk[i]-ord[i]-1];free(kv);}
  long ax=2*nd,p=1;fits_create_img(f,DOUBLE_IMG,1,&ax,&st);fits_update_key(f,TSTRING,"EXTNAME","EXTENTS",NULL,&st);fits_write_pix(f,TDOUBLE,&p,ax,ext,&st);
  fits_close_file(f,&st);if(st){fits_report_error(stderr,st);return 1;}return 0;}
