#!/bin/sh
# usage: run.sh <photospline tree>   (exit 1 on a tree without the fix)
# D51: one write(2) on the output fails once (ENOSPC) while cfitsio flushes its buffers at the end of the write; the writer reports the
# failure, but the file it leaves behind must not load as a table that differs from the one being written.
# (K sweeps over every write/lseek the writer issues on the output; faults injected with strace -e inject.)
SRC=${1:-/repo}; OUT=$(mktemp -d); trap 'rm -rf "$OUT"' EXIT
H=$(dirname "$(readlink -f "$0")")
gcc "$H/mk.c" -o "$OUT/mk" -lcfitsio -lm || exit 2
for s in w rd; do
  g++ -std=gnu++11 -O1 -w -I"$SRC/include" -I/usr/include/suitesparse "$H/$s.cpp" "$SRC"/src/core/fitsio.cpp "$SRC"/src/core/bspline.cpp -o "$OUT/$s" -lcfitsio -lpthread || exit 2
done
cd "$OUT" && ./mk t3.fits 2:12,3:40,2:30 || exit 2
bad=0
for k in 1 2 3 4 5 6 7 8 9 10 11 12 13 14 15 16 17 18 19 20; do
  rm -f o.fits
  strace -f -o /dev/null -e trace=write,lseek -P "$OUT/o.fits" -e inject=write,lseek:error=ENOSPC:when=$k ./w t3.fits "$OUT/o.fits" 2>/dev/null; w=$?
  if [ -e o.fits ]; then ./rd t3.fits o.fits 2>/dev/null; r=$?; else r=absent; fi
  if [ "$w" != 0 ] && [ "$r" = 3 ]; then echo "fault #$k: writer reported failure and left a file that loads as a DIFFERENT table"; bad=1; fi
done
[ $bad = 0 ] && echo "D51: no reported failure leaves a file that loads as a different table" 
exit $bad
