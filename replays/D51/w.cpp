#include <photospline/splinetable.h>
#include <iostream>
int main(int argc,char**argv){
  photospline::splinetable<> t(argv[1]);
  try{ t.write_fits(argv[2]); }catch(std::exception&e){ std::cerr<<"EXC "<<e.what()<<"\n"; return 2;}
  return 0;
}
