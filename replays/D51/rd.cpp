// rd ref.fits cand.fits : exit 0 = cand loads equal (orders, knots, coefficients) ; 1 = rejected ; 3 = loads DIFFERENT
#include <photospline/splinetable.h>
#include <iostream>
#include <cstring>
typedef photospline::splinetable<> T;
static bool same(const T&a,const T&b){
  if(a.get_ndim()!=b.get_ndim()) return false;
  for(uint32_t i=0;i<a.get_ndim();i++){
    if(a.get_order(i)!=b.get_order(i)||a.get_nknots(i)!=b.get_nknots(i)||a.get_ncoeffs(i)!=b.get_ncoeffs(i)) return false;
    if(memcmp(a.get_knots(i),b.get_knots(i),a.get_nknots(i)*sizeof(double))) return false;
  }
  return !memcmp(a.get_coefficients(),b.get_coefficients(),a.get_ncoeffs()*sizeof(float));
}
int main(int argc,char**argv){
  T ref(argv[1]);
  T c;
  try{ if(!c.read_fits(argv[2])) return 1; }catch(std::exception&e){ return 1; }
  return same(ref,c)?0:3;
}
