#!/bin/sh
# usage: run.sh <photospline tree>
set -e
T=${1:-/repo}; O=$(mktemp -d); trap 'rm -rf "$O"' EXIT
g++ -std=gnu++17 -g -O0 -fsanitize=address -I$T/include -I/usr/include/suitesparse "$(dirname "$0")/demo.cpp" $T/src/core/*.cpp -o $O/demo -lcfitsio -lpthread
ASAN_OPTIONS=detect_leaks=1 $O/demo $T/test/test_data/test_spline_2d.fits
