// auxiliary string values containing quotes survive a FITS round trip (apart from trailing blanks)
#include <photospline/splinetable.h>
#include <cstdio>
#include <cstdlib>
#include <string>
static std::string rtrim(std::string s){ while(!s.empty() && s.back()==' ') s.pop_back(); return s; }
int main(int argc,char**argv){
	photospline::splinetable<> s(argv[1]);
	const char* vals[]={"it's","x'","'","''","a''b","plain","  lead","","'quoted'","don't 'mix' them"};
	int n=sizeof(vals)/sizeof(vals[0]);
	for(int i=0;i<n;i++){ char key[16]; snprintf(key,sizeof key,"K%d",i); s.write_key(key,std::string(vals[i])); }
	s.write_key("NUMBER",42);
	auto b=s.write_fits_mem();
	photospline::splinetable<> t; t.read_fits_mem(b.first,b.second); free(b.first);
	int bad=0;
	for(int i=0;i<n;i++){ char key[16]; snprintf(key,sizeof key,"K%d",i);
		const char* got=t.get_aux_value(key);
		if(!got || rtrim(got)!=rtrim(vals[i])){ printf("%s: stored [%s], read back [%s]\n",key,vals[i],got?got:"(missing)"); bad++; } }
	int num=0; if(!t.read_key("NUMBER",num) || num!=42){ printf("NUMBER: %d\n",num); bad++; }
	printf("%d of %d values changed\n",bad,n+1);
	return bad?1:0;
}
