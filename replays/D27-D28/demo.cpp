// valid tables built by the stacking constructor: extent and period accessors, permutation
#include <photospline/splinetable.h>
#include <cstdio>
int main(int argc, char** argv){
	photospline::splinetable<> a(argv[1]), b(argv[1]), c(argv[1]);
	std::vector<photospline::splinetable<>*> tabs{&a,&b,&c};
	std::vector<double> pos{0.,1.,2.};
	photospline::splinetable<> st(tabs,pos,2);
	printf("stacked ndim=%u\n",st.get_ndim()); fflush(stdout);
	printf("period(0)=%g\n",st.get_period(0)); fflush(stdout);
	printf("extent(0)=[%g,%g]\n",st.lower_extent(0),st.upper_extent(0)); fflush(stdout);
	printf("extent(last)=[%g,%g]\n",st.lower_extent(st.get_ndim()-1),st.upper_extent(st.get_ndim()-1)); fflush(stdout);
	std::vector<size_t> perm{1,0};
	st.permuteDimensions(perm);
	printf("permuted; extent(0)=[%g,%g]\n",st.lower_extent(0),st.upper_extent(0));
	return 0;
}
