#!/bin/sh
# usage: run.sh <photospline tree>   (exit 139 = SIGSEGV on a tree without the fixes 35e5d4f / 2874a02)
set -e
T=${1:-/repo}; O=$(mktemp -d); trap 'rm -rf "$O"' EXIT
g++ -std=gnu++17 -g -O0 -I$T/include -I/usr/include/suitesparse "$(dirname "$0")/demo.cpp" $T/src/core/*.cpp -o $O/demo -lcfitsio -lpthread
$O/demo $T/test/test_data/test_spline_1d.fits
