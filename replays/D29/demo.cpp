// estimateMemory vs. bytes actually requested from the allocator while loading a table with many auxiliary keys
#include <photospline/splinetable.h>
#include <cstdio>
#include <cstdlib>
static size_t live=0, peak=0;
template<typename T> struct CountingAlloc{
	typedef T value_type;
	CountingAlloc(){}
	template<typename U> CountingAlloc(const CountingAlloc<U>&){}
	T* allocate(size_t n){ live+=n*sizeof(T); if(live>peak) peak=live; return static_cast<T*>(malloc(n*sizeof(T))); }
	void deallocate(T* p, size_t n){ live-=n*sizeof(T); free(p); }
	template<typename U> struct rebind{ typedef CountingAlloc<U> other; };
	bool operator==(const CountingAlloc&) const{ return true; }
	bool operator!=(const CountingAlloc&) const{ return false; }
};
template<> struct CountingAlloc<void>{
	typedef void value_type;
	CountingAlloc(){}
	template<typename U> CountingAlloc(const CountingAlloc<U>&){}
	template<typename U> struct rebind{ typedef CountingAlloc<U> other; };
};
int main(int argc, char** argv){
	int nkeys=atoi(argv[2]);
	{
		photospline::splinetable<> t(argv[1]);
		for(int i=0;i<nkeys;i++){
			char key[16]; snprintf(key,sizeof key,"AUX%d",i);
			t.write_key(key,std::string(60,'a'+i%26));
		}
		remove("/tmp/d29b/aux.fits");
		t.write_fits("/tmp/d29b/aux.fits");
	}
	typedef photospline::splinetable<CountingAlloc<void>> T;
	size_t est=T::estimateMemory("/tmp/d29b/aux.fits");
	{
		T t("/tmp/d29b/aux.fits",CountingAlloc<void>());
		printf("aux keys read: %zu\n",t.get_naux_values());
	}
	size_t objpeak=peak+sizeof(T);
	printf("estimate=%zu peak requested (incl. object)=%zu -> %s\n",est,objpeak,est>=objpeak?"BOUND HOLDS":"BOUND VIOLATED");
	return est>=objpeak?0:1;
}
