#!/bin/sh
# usage: run.sh <photospline tree>   (exit 1 = estimate below the bytes requested, on a tree without 53a7187)
set -e
T=${1:-/repo}; O=$(mktemp -d); trap 'rm -rf "$O"' EXIT
sed "s#/tmp/d29b/aux.fits#$O/aux.fits#g" "$(dirname "$0")/demo.cpp" > $O/demo.cpp
g++ -std=gnu++17 -g -O0 -I$T/include -I/usr/include/suitesparse $O/demo.cpp $T/src/core/*.cpp -o $O/demo -lcfitsio -lpthread
for n in 0 10 50; do $O/demo $T/test/test_data/test_spline_1d.fits $n; done
