// D68: the stacking constructor states its preconditions with assert only — and not the one it needs: it indexes tables[1] and
// coordinates[1] (and [size-2]) to build the padding tables, so a single table, or a coordinate list shorter than the table list,
// is read past the end of the vector (C20: an operation given invalid input fails, it does not corrupt memory).
#include <photospline/splinetable.h>
#include <cstdio>
#include <vector>
int main(int argc, char** argv){
	photospline::splinetable<> t(argv[1]);
	int bad = 0;
	{
		std::vector<photospline::splinetable<>*> tables{&t};
		std::vector<double> coords{0.0};
		try{
			photospline::splinetable<> s(tables, coords, 2);
			printf("stacking ONE table returned normally (ndim %u)\n", s.get_ndim());
			bad = 1;
		}catch(std::exception& e){ printf("one table: refused: %s\n", e.what()); }
	}
	{
		std::vector<photospline::splinetable<>*> tables{&t, &t, &t};
		std::vector<double> coords{0.0};
		try{
			photospline::splinetable<> s(tables, coords, 2);
			printf("stacking three tables with ONE coordinate returned normally\n");
			bad = 1;
		}catch(std::exception& e){ printf("three tables, one coordinate: refused: %s\n", e.what()); }
	}
	return bad;
}
