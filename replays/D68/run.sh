#!/bin/sh
# usage: run.sh <photospline tree>   (exit 1 on a tree without the fix: AddressSanitizer heap-buffer-overflow in the stacking constructor)
SRC=${1:-/repo}; OUT=$(mktemp -d); trap 'rm -rf "$OUT"' EXIT
H=$(dirname "$(readlink -f "$0")")
g++ -std=gnu++11 -g -O1 -DNDEBUG -fsanitize=address,undefined -I"$SRC/include" "$H/demo.cpp" "$SRC"/src/core/*.cpp -o "$OUT/demo" -lcfitsio -lpthread || exit 2
"$OUT/demo" "$SRC/test/test_data/test_spline_2d.fits" 2>&1 | grep -E "refused|returned|ERROR|SUMMARY" | head -6
"$OUT/demo" "$SRC/test/test_data/test_spline_2d.fits" >/dev/null 2>&1; rc=$?
[ $rc = 0 ] && echo PASS || echo "FAIL (exit $rc)"
[ $rc = 0 ]
