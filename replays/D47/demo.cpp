// D47: removing the last auxiliary key leaves a zero-length key array behind (naux == 0, aux != null).  On a table that holds no spline the
// emptiness test of the readers (ndim == 0 && naux == 0) passes and the reader overwrites aux: the block is never returned to the allocator.
#include <photospline/splinetable.h>
#include <cstdio>
#include <map>
static std::map<void*, size_t> live; static size_t nalloc=0, nfree=0;
template<typename T> struct counting_allocator{
	typedef T value_type;
	counting_allocator(){}
	template<typename U> counting_allocator(const counting_allocator<U>&){}
	T* allocate(size_t n){ T* p=static_cast<T*>(::operator new(n*sizeof(T)+1)); live[p]=n*sizeof(T); nalloc++; return p; }
	void deallocate(T* p, size_t){ if(!p) return; live.erase(p); nfree++; ::operator delete(p); }
	template<typename U> bool operator==(const counting_allocator<U>&) const { return true; }
	template<typename U> bool operator!=(const counting_allocator<U>&) const { return false; }
};
int main(int argc, char** argv){
	{
		photospline::splinetable<counting_allocator<void>> t;
		t.write_key("ONLY", 1);
		t.remove_key("ONLY");
		printf("after removing the only key: naux=%zu, blocks outstanding=%zu\n", (size_t)t.get_naux_values(), live.size());
		t.read_fits(argv[1]);
	}
	printf("after destruction: %zu block(s) never returned (%zu allocations, %zu releases)\n", live.size(), nalloc, nfree);
	return live.empty() ? 0 : 1;
}
