#!/bin/sh
# usage: observe.sh /path/to/photospline-source-tree
# Reproduces the observations on the UNCHANGED code described in notes.md.
set -u
SRC=${1:?usage: observe.sh <photospline source tree>}
HERE=$(cd "$(dirname "$0")" && pwd)
WORK=$(mktemp -d) || exit 2
trap 'rm -rf "$WORK"' EXIT INT TERM
INC="-I$SRC/include -I/usr/include/suitesparse -I$HERE"
for f in nnls cholesky_solve splineutil; do
	gcc -std=gnu99 -O1 -g -w $INC -c "$SRC/src/fitter/$f.c" -o "$WORK/$f.o" || exit 2
done
g++ -std=gnu++11 -O1 -g $INC "$HERE/observation_cycle.cpp" "$WORK"/*.o -o "$WORK/obs" -lspqr -lcholmod -lpthread -lm || exit 2
g++ -std=gnu++11 -O1 -g $INC "$HERE/harness.cpp" "$WORK"/*.o -o "$WORK/harness" -lspqr -lcholmod -lpthread -lm || exit 2
echo "== 1. nnls_normal_block3 cycles with period 2 (7x7 system in case798.inc)"
OMP_NUM_THREADS=2 "$WORK/obs"
echo "   outer iterations used: $(OMP_NUM_THREADS=2 "$WORK/obs" v | grep -c '^Iteration') (max_iter = 120)"
echo "== 2. nnls_normal_block / nnls_normal_block_updown run out of their 3*n iterations (trial 143, n=4)"
"$WORK/harness" 1 144 3 10 1 1
"$WORK/harness" 2 144 3 10 1 1
exit 0
