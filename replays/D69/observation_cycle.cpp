// Observation on the UNCHANGED code: nnls_normal_block3 alternates between
// two active sets (period 2) until max_iter and returns a non-optimal point.
// Build: see notes.md.  Prints the KKT residual of the returned vector.
#include <cholmod.h>
#include <cstdio>
#include <cstring>
#include <cstdlib>
#include "photospline/detail/splineutil.h"
#include "case798.inc"
int main(int argc, char **argv)
{
	cholmod_common c;
	cholmod_l_start(&c);
	cholmod_dense *D = cholmod_l_allocate_dense(n, n, n, CHOLMOD_REAL, &c);
	memcpy(D->x, A, sizeof(A));
	cholmod_sparse *S = cholmod_l_dense_to_sparse(D, 1, &c);
	S->stype = 0;
	cholmod_dense *y = cholmod_l_allocate_dense(n, 1, n, CHOLMOD_REAL, &c);
	memcpy(y->x, b, sizeof(b));
	cholmod_dense *x = nnls_normal_block3(S, y, argc > 1, &c);
	const double *xv = (const double *)x->x;
	int bad = 0;
	for (int i = 0; i < n; i++) {
		long double g = -b[i];
		for (int j = 0; j < n; j++) g += (long double)A[i + n * j] * xv[j];
		printf("x[%d] = %-22.15g gradient = %-12.4Lg relative to |b| = %.3Lg\n",
		    i, xv[i], g, g / (b[i] < 0 ? -b[i] : b[i]));
		if (xv[i] == 0 && g < -1e-6 * (b[i] < 0 ? -b[i] : b[i])) bad = 1;
	}
	printf(bad ? "NOT optimal: negative gradient on a zero component\n" : "optimal\n");
	return bad;
}
