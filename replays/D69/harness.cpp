// Exploratory harness: run the four NNLS solvers on random small SPD systems
// and compare with brute-force enumeration of active sets.
#include <cholmod.h>
#include <cstdio>
#include <cstdlib>
#include <cmath>
#include <cstring>
#include <vector>
#include <random>
#include <algorithm>
#include "photospline/detail/splineutil.h"

typedef std::vector<double> vec;

static cholmod_sparse *to_sparse(const vec &A, int n, cholmod_common *c)
{
	cholmod_dense *D = cholmod_l_allocate_dense(n, n, n, CHOLMOD_REAL, c);
	memcpy(D->x, A.data(), sizeof(double) * n * n);
	cholmod_sparse *S = cholmod_l_dense_to_sparse(D, 1, c);
	cholmod_l_free_dense(&D, c);
	S->stype = 0;
	return S;
}

// solve A[S,S] x = b[S] by Gaussian elimination w/ partial pivoting
static bool solve_sub(const vec &A, const vec &b, int n, const std::vector<int> &S, vec &xs)
{
	int m = S.size();
	std::vector<long double> M(m * (m + 1));
	for (int i = 0; i < m; i++) {
		for (int j = 0; j < m; j++)
			M[i * (m + 1) + j] = A[S[i] + n * S[j]];
		M[i * (m + 1) + m] = b[S[i]];
	}
	for (int k = 0; k < m; k++) {
		int p = k;
		for (int i = k + 1; i < m; i++)
			if (fabsl(M[i * (m + 1) + k]) > fabsl(M[p * (m + 1) + k])) p = i;
		if (M[p * (m + 1) + k] == 0) return false;
		if (p != k)
			for (int j = 0; j <= m; j++) std::swap(M[p * (m + 1) + j], M[k * (m + 1) + j]);
		for (int i = k + 1; i < m; i++) {
			long double f = M[i * (m + 1) + k] / M[k * (m + 1) + k];
			for (int j = k; j <= m; j++) M[i * (m + 1) + j] -= f * M[k * (m + 1) + j];
		}
	}
	xs.assign(m, 0);
	for (int i = m - 1; i >= 0; i--) {
		long double s = M[i * (m + 1) + m];
		for (int j = i + 1; j < m; j++) s -= M[i * (m + 1) + j] * xs[j];
		xs[i] = s / M[i * (m + 1) + i];
	}
	return true;
}

static double objective(const vec &A, const vec &b, int n, const vec &x)
{
	long double f = 0;
	for (int i = 0; i < n; i++) {
		long double s = 0;
		for (int j = 0; j < n; j++) s += A[i + n * j] * x[j];
		f += x[i] * (0.5L * s - b[i]);
	}
	return f;
}

// brute force: best feasible stationary point over all active sets
static vec brute(const vec &A, const vec &b, int n)
{
	vec best(n, 0);
	double fbest = 0;
	for (unsigned mask = 1; mask < (1u << n); mask++) {
		std::vector<int> S;
		for (int i = 0; i < n; i++) if (mask & (1u << i)) S.push_back(i);
		vec xs;
		if (!solve_sub(A, b, n, S, xs)) continue;
		bool ok = true;
		for (double v : xs) if (v < 0) { ok = false; break; }
		if (!ok) continue;
		vec x(n, 0);
		for (size_t i = 0; i < S.size(); i++) x[S[i]] = xs[i];
		double f = objective(A, b, n, x);
		if (f < fbest) { fbest = f; best = x; }
	}
	return best;
}

struct Result { double maxdiff, minx, kkt; };

static Result check(const vec &A, const vec &b, int n, const vec &x, const vec &ref)
{
	Result r = {0, 0, 0};
	double scale = 0;
	for (int i = 0; i < n; i++) scale = std::max(scale, fabs(ref[i]));
	for (int i = 0; i < n; i++) {
		r.maxdiff = std::max(r.maxdiff, fabs(x[i] - ref[i]));
		r.minx = std::min(r.minx, x[i]);
	}
	(void)scale;
	return r;
}

int main(int argc, char **argv)
{
	int solver = argc > 1 ? atoi(argv[1]) : 1;
	int ntrials = argc > 2 ? atoi(argv[2]) : 1000;
	int nmin = argc > 3 ? atoi(argv[3]) : 3;
	int nmax = argc > 4 ? atoi(argv[4]) : 10;
	int mode = argc > 5 ? atoi(argv[5]) : 0;
	unsigned seed = argc > 6 ? atoi(argv[6]) : 1;
	double tol = argc > 7 ? atof(argv[7]) : 1e-4;
	cholmod_common c;
	cholmod_l_start(&c);
	std::mt19937 rng(seed);
	std::normal_distribution<double> N(0, 1);
	std::uniform_real_distribution<double> U(0, 1);
	int nfail = 0;
	for (int t = 0; t < ntrials; t++) {
		int n = nmin + rng() % (nmax - nmin + 1);
		int m = n + rng() % 3; // rows of design matrix
		vec B(m * n), A(n * n), b(n);
		if (mode == 0) {
			for (auto &v : B) v = N(rng);
		} else if (mode == 1) {
			// highly correlated positive columns (like B-spline-ish / smooth bumps)
			for (int j = 0; j < n; j++)
				for (int i = 0; i < m; i++) {
					double d = (i * (double)n / m - j) / (1.0 + 2 * U(rng));
					B[i + m * j] = exp(-0.5 * d * d * 0.3) + 0.01 * N(rng);
				}
		} else {
			// common factor + noise
			vec f(m);
			for (auto &v : f) v = N(rng);
			double eps = pow(10, -1 - 2 * U(rng));
			for (int j = 0; j < n; j++)
				for (int i = 0; i < m; i++) B[i + m * j] = f[i] + eps * N(rng);
		}
		vec d(m);
		for (auto &v : d) v = N(rng);
		for (int i = 0; i < n; i++) {
			for (int j = 0; j < n; j++) {
				double s = 0;
				for (int k = 0; k < m; k++) s += B[k + m * i] * B[k + m * j];
				A[i + n * j] = s;
			}
			double s = 0;
			for (int k = 0; k < m; k++) s += B[k + m * i] * d[k];
			b[i] = s;
		}
		for (int i = 0; i < n; i++) A[i + n * i] *= 1 + 1e-6; // keep PD when m==n
		vec dsc(n, 1.0);
		if (getenv("SCALE")) {
			int smax = atoi(getenv("SCALE"));
			for (int i = 0; i < n; i++) dsc[i] = pow(10.0, -(int)(rng() % (smax + 1)));
			for (int i = 0; i < n; i++) { b[i] *= dsc[i]; for (int j = 0; j < n; j++) A[i + n * j] *= dsc[i] * dsc[j]; }
		}
		vec ref = brute(A, b, n);
		cholmod_sparse *S = to_sparse(A, n, &c);
		cholmod_dense *y = cholmod_l_allocate_dense(n, 1, n, CHOLMOD_REAL, &c);
		memcpy(y->x, b.data(), sizeof(double) * n);
		cholmod_dense *x = NULL;
		switch (solver) {
		case 0: x = nnls_lawson_hanson(S, y, 1e-10, 0, 0, 0, 1, 0, &c); break;
		case 1: x = nnls_normal_block(S, y, getenv("VT") && atoi(getenv("VT"))==t, &c); break;
		case 2: x = nnls_normal_block_updown(S, y, 0, &c); break;
		case 3: x = nnls_normal_block3(S, y, 0, &c); break;
		}
		vec xv((double *)x->x, (double *)x->x + n);
		{ vec xs(xv), rs(ref); for (int i = 0; i < n; i++) { xs[i] *= dsc[i]; rs[i] *= dsc[i]; } xv = xs; ref = rs; }
		Result r = check(A, b, n, xv, ref);
		double scale = 1e-300;
		for (double v : ref) scale = std::max(scale, fabs(v));
		if (r.maxdiff > tol * (1 + scale) || r.minx < -1e-5) {
			nfail++;
			if (nfail <= 10) {
				printf("FAIL trial %d n=%d maxdiff=%g minx=%g scale=%g f(x)=%.10g f(ref)=%.10g\n", t, n, r.maxdiff, r.minx, scale,
				    0.0, 0.0);
			}
		}
		cholmod_l_free_dense(&x, &c);
		cholmod_l_free_dense(&y, &c);
		cholmod_l_free_sparse(&S, &c);
	}
	printf("solver %d: %d/%d failures\n", solver, nfail, ntrials);
	cholmod_l_finish(&c);
	return nfail != 0;
}
