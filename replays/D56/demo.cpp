// D56: an empty table (default-constructed, moved-from, left empty by a failed read) must remain safely usable (C20), and the C
// interface must turn failures into non-zero returns (C18).  Lookup "succeeded" vacuously on an empty table, so the call operator,
// the evaluator and grid evaluation went on to dereference the null per-dimension arrays.
#include <photospline/splinetable.h>
#include <photospline/cinter/splinetable.h>
#include <cstdio>
#include <unistd.h>
#include <sys/wait.h>
#include <functional>
typedef photospline::splinetable<> T;
static int bad=0;
static void run(const char* name, std::function<void(T&)> fn){
	fflush(stdout);
	pid_t p=fork();
	if(p==0){
		T t;
		try{ t.read_fits("/nonexistent/file.fits"); }catch(...){} // a failed read leaves the table empty
		try{ fn(t); printf("%-34s returned normally\n",name); }
		catch(std::exception& e){ printf("%-34s threw: %s\n",name,e.what()); }
		fflush(stdout); _exit(0);
	}
	int st; waitpid(p,&st,0);
	if(WIFSIGNALED(st)){ printf("%-34s KILLED by signal %d\n",name,WTERMSIG(st)); bad++; }
}
int main(){
	static double x[1]={0.5}; static int c[1]={0};
	run("call operator",[&](T&t){ double v=t(x); printf("  value %g\n",v); });
	run("searchcenters then ndsplineeval",[&](T&t){ if(t.searchcenters(x,c)) t.ndsplineeval(x,c,0); });
	run("get_evaluator",[&](T&t){ auto e=t.get_evaluator(); e(x); });
	run("grideval",[&](T&t){ std::vector<std::vector<double>> co; t.grideval(co); });
	// the same through the C interface, on a handle that was only initialised
	run("C: tablesearchcenters+ndsplineeval",[&](T&){ struct splinetable h; splinetable_init(&h); if(tablesearchcenters(&h,x,c)) ndsplineeval(&h,x,c,0); splinetable_free(&h); });
	run("C: splinetable_grideval",[&](T&){ struct splinetable h; splinetable_init(&h); struct ndsparse* r=NULL; const double* co[1]={NULL}; uint32_t n[1]={0};
		int rc=splinetable_grideval(&h,co,n,&r); printf("  rc %d\n",rc); splinetable_free(&h); });
	printf(bad?"FAIL: %d operation(s) on an empty table crash\n":"PASS\n",bad);
	return bad?1:0;
}
