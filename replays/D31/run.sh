#!/bin/sh
# usage: run.sh <photospline tree>
set -e
SRC=${1:-/repo}; OUT=$(mktemp -d); trap 'rm -rf "$OUT"' EXIT
INC="-I$SRC/include -I/usr/include/suitesparse"; DEFS="-DPHOTOSPLINE_INCLUDES_SPGLAM"
for f in "$SRC"/src/fitter/*.c; do gcc -std=gnu99 -O1 -g -w $DEFS $INC -I"$SRC/src/fitter" -c "$f" -o "$OUT/$(basename "$f" .c).o"; done
for f in "$SRC"/src/core/*.cpp; do g++ -std=gnu++11 -O1 -g -w $DEFS $INC -c "$f" -o "$OUT/$(basename "$f" .cpp).o"; done
g++ -std=gnu++11 -O1 -g -w $DEFS $INC "$(dirname "$0")/demo.cpp" "$OUT"/*.o -lcfitsio -lspqr -lcholmod -lsuitesparseconfig -lpthread -lm -o "$OUT/demo"
for k in $(seq 0 45); do "$OUT/demo" $SRC/test/test_data/test_spline_2d.fits $k 2>&1 | grep -v "CHOLMOD error\|reference" | tr "\n" " "; echo " [k=$k exit ${PIPESTATUS:-?}]"; done
