// grideval under a CHOLMOD allocation failure inside slicemultiply: must not hand back a silently wrong grid
#include <photospline/splinetable.h>
#include <SuiteSparse_config.h>
#include <cstdio>
#include <cstdlib>
#include <cmath>
static long countdown=-1;
static void* failing_malloc(size_t n){ if(countdown>=0 && countdown--==0) return NULL; return malloc(n); }
static void* failing_calloc(size_t a,size_t b){ if(countdown>=0 && countdown--==0) return NULL; return calloc(a,b); }
int main(int argc,char**argv){
	photospline::splinetable<> t(argv[1]);
	std::vector<std::vector<double>> g(t.get_ndim());
	for(uint32_t d=0;d<t.get_ndim();d++) for(int k=0;k<4;k++) g[d].push_back(t.lower_extent(d)+(k+0.5)*(t.upper_extent(d)-t.lower_extent(d))/4);
	auto ref=t.grideval(g);
	double refsum=0; for(size_t i=0;i<ref->rows;i++) refsum+=ref->x[i];
	printf("reference: %zu entries, sum %.6g\n",ref->rows,refsum);
	SuiteSparse_config.malloc_func=failing_malloc;
	SuiteSparse_config.calloc_func=failing_calloc;
	int silent_wrong=0, threw=0, same=0;
	long k0=argc>2?atol(argv[2]):0; for(long k=k0;k<k0+1;k++){
		countdown=k;
		try{
			auto r=t.grideval(g);
			countdown=-1;
			double s=0; for(size_t i=0;i<r->rows;i++) s+=r->x[i];
			bool ok = r->rows==ref->rows && std::fabs(s-refsum)<=1e-9*std::fabs(refsum);
			for(uint32_t d=0;d<t.get_ndim();d++) if(r->ranges[d]!=g[d].size()) ok=false;
			if(ok) same++; else { silent_wrong++; printf("failure at CHOLMOD allocation %ld: no exception, %zu entries, sum %.6g\n",k,r->rows,s); }
		}catch(std::exception& e){ countdown=-1; threw++; }
	}
	printf("threw %d, unaffected %d, silently wrong %d\n",threw,same,silent_wrong);
	return silent_wrong?1:0;
}
