#!/bin/sh
# usage: run.sh <photospline tree> [number of systems]
set -e
SRC=${1:-/repo}; OUT=$(mktemp -d); trap 'rm -rf "$OUT"' EXIT
INC="-I$SRC/include -I/usr/include/suitesparse"; DEFS="-DPHOTOSPLINE_INCLUDES_SPGLAM"
for f in "$SRC"/src/fitter/*.c; do gcc -std=gnu99 -O1 -g -w $DEFS $INC -I"$SRC/src/fitter" -c "$f" -o "$OUT/$(basename "$f" .c).o"; done
gcc -std=gnu99 -O1 -g -w $DEFS $INC "$(dirname "$0")/demo.c" "$OUT"/*.o -lspqr -lcholmod -lpthread -lm -lstdc++ -o "$OUT/demo"
for t in 1 4; do echo "workers=$t"; OMP_NUM_THREADS=$t "$OUT/demo" ${2:-300} | tail -10; done
