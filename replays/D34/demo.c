/* nnls_normal_block3 on random symmetric positive-definite systems: Karush-Kuhn-Tucker residual of the returned point */
#include <stdio.h>
#include <stdlib.h>
#include <math.h>
#include <cholmod.h>
#include "photospline/detail/splineutil.h"
cholmod_dense *nnls_normal_block3(cholmod_sparse *AtA, cholmod_dense *Atb, int verbose, cholmod_common *c);
static double urand(void){ return rand()/(double)RAND_MAX; }
int main(int argc,char**argv){
	int nsys = argc>1?atoi(argv[1]):300;
	cholmod_common c; cholmod_l_start(&c);
	int bad=0, neg=0; double worst=0;
	for(int s=0;s<nsys;s++){
		srand(1000+s);
		int n = 4 + s%9;   /* 4..12 */
		int m = n+3;
		double *M = malloc(sizeof(double)*m*n), *A = calloc(n*n,sizeof(double)), *b = malloc(sizeof(double)*n);
		for(int i=0;i<m*n;i++) M[i]=urand()-0.5;
		for(int i=0;i<n;i++) for(int j=0;j<n;j++){ double t=0; for(int k=0;k<m;k++) t+=M[k*n+i]*M[k*n+j]; A[i*n+j]=t+(i==j?1e-3:0); }
		for(int i=0;i<n;i++) b[i]=urand()-0.4;
		cholmod_triplet *T = cholmod_l_allocate_triplet(n,n,n*n,0,CHOLMOD_REAL,&c);
		for(int i=0;i<n;i++) for(int j=0;j<n;j++){ ((long*)T->i)[T->nnz]=i; ((long*)T->j)[T->nnz]=j; ((double*)T->x)[T->nnz]=A[i*n+j]; T->nnz++; }
		cholmod_sparse *S = cholmod_l_triplet_to_sparse(T,T->nnz,&c);
		cholmod_l_free_triplet(&T,&c);
		cholmod_dense *B = cholmod_l_allocate_dense(n,1,n,CHOLMOD_REAL,&c);
		for(int i=0;i<n;i++) ((double*)B->x)[i]=b[i];
		cholmod_dense *X = nnls_normal_block3(S,B,0,&c);
		double *x=(double*)X->x; double kkt=0; int isneg=0;
		for(int i=0;i<n;i++){
			double g=-b[i]; for(int j=0;j<n;j++) g+=A[i*n+j]*x[j];
			if(x[i]<0) isneg=1;
			double v = x[i]>0 ? fabs(g) : (g<0?-g:0);
			if(v>kkt) kkt=v;
		}
		if(isneg) neg++;
		if(kkt>1e-6){ bad++; if(bad<=8) printf("system %d (n=%d): KKT residual %.3g\n",s,n,kkt);} 
		if(kkt>worst) worst=kkt;
		cholmod_l_free_dense(&X,&c); cholmod_l_free_dense(&B,&c); cholmod_l_free_sparse(&S,&c);
		free(M); free(A); free(b);
	}
	printf("%d of %d systems violate the KKT conditions (worst residual %.3g), %d with a negative component\n",bad,nsys,worst,neg);
	cholmod_l_finish(&c);
	return (bad||neg)?1:0;
}
