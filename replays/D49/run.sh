#!/bin/sh
# usage: run.sh <photospline tree>   (AddressSanitizer: SEGV / heap-buffer-overflow in estimateMemory on a tree without the fix)
SRC=${1:-/repo}; OUT=$(mktemp -d); trap 'rm -rf "$OUT"' EXIT
g++ -std=gnu++11 -g -O0 -fsanitize=address -w -I"$SRC/include" -I/usr/include/suitesparse "$(dirname "$0")/demo.cpp" "$SRC"/src/core/fitsio.cpp "$SRC"/src/core/bspline.cpp -o "$OUT/demo" -lcfitsio -lpthread || exit 2
"$OUT/demo" "$(dirname "$0")/naxis0.fits" "$SRC/test/test_data/test_spline_2d.fits" 2>&1 | grep -E "refused|no error|ERROR|#[0-2] " | cut -c1-200 | head -8
