// D49: estimateMemory indexes the per-dimension orders with the declared convolution dimension without comparing it with the number
// of dimensions of the file: a FITS file whose primary image has NAXIS = 0 (any non-spline file), or a declared dimension beyond the
// table's, writes outside the vector.
#include <photospline/splinetable.h>
#include <cstdio>
int main(int argc, char** argv){
	int bad = 0;
	try{ size_t s = photospline::splinetable<>::estimateMemory(argv[1]); printf("NAXIS=0 file: estimate %zu (no error)\n", s); bad++; }
	catch(std::exception& e){ printf("NAXIS=0 file: refused (%s)\n", e.what()); }
	try{ size_t s = photospline::splinetable<>::estimateMemory(argv[2], 3, 7); printf("2-d table, convolution declared in dimension 7: estimate %zu (no error)\n", s); bad++; }
	catch(std::exception& e){ printf("2-d table, convolution declared in dimension 7: refused (%s)\n", e.what()); }
	return bad ? 1 : 0;
}
