// D62: writing a table and reading it back yields a table that "compares equal to the original" (C06), NaN coefficients included
// ("NaN and infinities preserved as such").  operator== compared the coefficients with std::equal on floats: NaN != NaN, so a table
// holding a NaN coefficient compared unequal to its exact copy — and to itself.
#include <photospline/splinetable.h>
#include <cstdio>
#include <cstdlib>
#include <cstring>
int main(int argc,char**argv){
	photospline::splinetable<> t(argv[1]);
	std::pair<void*,size_t> buf=t.write_fits_mem();
	// the coefficient image starts right after the primary header: make its 4th value a quiet NaN (big-endian 7f c0 00 00)
	size_t hdr=0; for(size_t off=0; off+80<=buf.second; off+=80) if(!memcmp((char*)buf.first+off,"END     ",8)){ hdr=((off/2880)+1)*2880; break; }
	unsigned char nan_be[4]={0x7f,0xc0,0x00,0x00};
	memcpy((char*)buf.first+hdr+3*4,nan_be,4);
	photospline::splinetable<> a,b;
	a.read_fits_mem(buf.first,buf.second);
	b.read_fits_mem(buf.first,buf.second);
	std::pair<void*,size_t> again=a.write_fits_mem();
	photospline::splinetable<> c; c.read_fits_mem(again.first,again.second);
	bool bits=!memcmp(a.get_coefficients(),c.get_coefficients(),a.get_ncoeffs()*sizeof(float));
	printf("coefficient 3 = %g; round trip bit-identical: %d; a==a: %d; a==b (read from the same bytes): %d; a==c (round trip): %d\n",
	       a.get_coefficients()[3],(int)bits,(int)(a==a),(int)(a==b),(int)(a==c));
	free(buf.first); free(again.first);
	return (bits && a==a && a==b && a==c)?0:1;
}
