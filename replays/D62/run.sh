#!/bin/sh
# usage: run.sh <photospline tree>   (exit 1 on a tree without the fix)
SRC=${1:-/repo}; OUT=$(mktemp -d); trap 'rm -rf "$OUT"' EXIT
g++ -std=gnu++11 -g -O0 -w -I"$SRC/include" -I/usr/include/suitesparse "$(dirname "$0")/demo.cpp" "$SRC"/src/core/fitsio.cpp "$SRC"/src/core/bspline.cpp -o "$OUT/demo" -lcfitsio -lpthread || exit 2
"$OUT/demo" "$SRC/test/test_data/test_spline_2d.fits"
