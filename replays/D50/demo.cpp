// D50: write_key with a string value that contains a NUL character allocates size()+1 characters but stores a C string that ends at the
// NUL; every later release passes strlen()+1: the allocator gets back a smaller size than it handed out, and the value is silently cut.
#include <photospline/splinetable.h>
#include <cstdio>
#include <map>
static std::map<void*, size_t> live; static int mismatches = 0;
template<typename T> struct checked_allocator{
	typedef T value_type;
	checked_allocator(){}
	template<typename U> checked_allocator(const checked_allocator<U>&){}
	T* allocate(size_t n){ T* p=static_cast<T*>(::operator new(n*sizeof(T)+1)); live[p]=n*sizeof(T); return p; }
	void deallocate(T* p, size_t n){ if(!p) return; if(live[p]!=n*sizeof(T)){ printf("block obtained with %zu bytes returned as %zu bytes\n", live[p], n*sizeof(T)); mismatches++; } live.erase(p); ::operator delete(p); }
	template<typename U> bool operator==(const checked_allocator<U>&) const { return true; }
	template<typename U> bool operator!=(const checked_allocator<U>&) const { return false; }
};
int main(){
	{
		photospline::splinetable<checked_allocator<void>> t;
		std::string v("ab\0cd", 5);
		try{ t.write_key("NULVAL", v); printf("accepted; stored value '%s'\n", t.get_aux_value("NULVAL")); }
		catch(std::exception& e){ printf("refused (%s)\n", e.what()); }
	}
	printf("%d size mismatch(es), %zu block(s) outstanding\n", mismatches, live.size());
	return mismatches ? 1 : 0;
}
