// Driver unit: makes every public member of splinetable<std::allocator<void>>
// (and the private cores they reach) available to the extractor as an
// instantiated body.  Parsed from /repo's headers on every run; never linked,
// never executed.  If a member does not instantiate, the parse fails and the
// check that needs it reports the compiler diagnostic (rule API-1).
#include "photospline/splinetable.h"
#include <vector>
#include <string>
#include <random>

namespace photospline {
typedef std::allocator<void> A;
typedef splinetable<A> ST;

// all non-template members (constructors, destructor, move, operator==,
// read/write, aux keys, searchcenters, ndsplineeval_deriv, operator(),
// convolve, permuteDimensions, estimateMemory, remove_key, ...)
template class splinetable<A>;

// member templates
template double ST::ndsplineeval<float>(const double*, const int*, int) const;
template double ST::ndsplineeval<double>(const double*, const int*, int) const;
template void ST::ndsplineeval_gradient<float>(const double*, const int*, double*) const;
template void ST::ndsplineeval_gradient<double>(const double*, const int*, double*) const;
template ST::evaluator_type<float> ST::get_evaluator<float>() const;
template ST::evaluator_type<double> ST::get_evaluator<double>() const;
template struct ST::evaluator_type<float>;
template struct ST::evaluator_type<double>;
template ST::benchmark_results ST::benchmark_evaluation<float>(size_t, bool);

template bool ST::read_key<int>(const char*, int&) const;
template bool ST::read_key<double>(const char*, double&) const;
template bool ST::write_key<int>(const char*, const int&);
template bool ST::write_key<double>(const char*, const double&);
template bool ST::write_key<std::string>(const char*, const std::string&);

#ifdef PHOTOSPLINE_INCLUDES_SPGLAM
template void ST::fit<std::vector<double>, std::vector<uint32_t>, std::vector<std::vector<double>>>(
    const ::ndsparse&, const std::vector<double>&, const std::vector<std::vector<double>>&,
    const std::vector<uint32_t>&, const std::vector<std::vector<double>>&,
    const std::vector<double>&, const std::vector<uint32_t>&, uint32_t, bool);
template void ST::fit<detail::array_view<double>, detail::array_view<uint32_t>,
                      std::vector<detail::array_view<double>>>(
    const ::ndsparse&, const detail::array_view<double>&, const std::vector<detail::array_view<double>>&,
    const detail::array_view<uint32_t>&, const std::vector<detail::array_view<double>>&,
    const detail::array_view<double>&, const detail::array_view<uint32_t>&, uint32_t, bool);
template std::unique_ptr<ndsparse> ST::grideval<std::vector<std::vector<double>>>(
    const std::vector<std::vector<double>>&) const;
template std::unique_ptr<ndsparse> ST::grideval<std::vector<detail::array_view<double>>>(
    const std::vector<detail::array_view<double>>&) const;
#endif

// free kernels, both precisions
template void bsplvb_simple<float>(const double*, const unsigned, double, int, int, float*);
template void bsplvb_simple<double>(const double*, const unsigned, double, int, int, double*);
template void bsplvb<float>(const double*, const double, const int, const int, const int, float*, double*, double*);
template void bsplvb<double>(const double*, const double, const int, const int, const int, double*, double*, double*);
template void bspline_nonzero<float>(const double*, const unsigned, const double, int, const int, float*, float*);
template void bspline_nonzero<double>(const double*, const unsigned, const double, int, const int, double*, double*);
template void bspline_deriv_nonzero<float>(const double*, const unsigned, const double, int, const int, float*);
template void bspline_deriv_nonzero<double>(const double*, const unsigned, const double, int, const int, double*);
}

// a use of write_key with a character array, as the documentation suggests
bool psv_write_key_literal(photospline::ST& t) { return t.write_key("KEY", "value"); }
