#!/usr/bin/env python3
"""confirm_seed.py <seed-id> <property> <mutwork-dir>
Confirms a seeded change independently (fresh scratch worktree: demo passes without the change, the library builds, the
project's tests pass and the demo fails with it), stores it under /verif/seeded/<seed-id>/ and records which checks fire
when the patch is applied to /repo (undone straight afterwards)."""
import json, os, shutil, subprocess, sys, time

sid, prop, work = sys.argv[1], sys.argv[2], sys.argv[3]
dst = "/verif/seeded/%s" % sid
os.makedirs(dst, exist_ok=True)
for fn in os.listdir(work):
    p = os.path.join(work, fn)
    if os.path.isfile(p) and os.path.getsize(p) < 300000 and not fn.endswith((".o", ".so", ".fits", ".log")) and not os.access(p, os.X_OK) or fn in ("run.sh",):
        shutil.copy(p, os.path.join(dst, fn))
patch = os.path.join(dst, "patch.diff")
assert os.path.exists(patch), "no patch.diff"
wt = "/tmp/confirm-%s" % sid
subprocess.run(["git", "-C", "/repo", "worktree", "remove", "--force", wt], capture_output=True)
subprocess.check_call(["git", "-C", "/repo", "worktree", "add", "-q", "--detach", wt, "HEAD"])
log = {}
def run(cmd, cwd=None, timeout=1800):
    t = time.time()
    try:
        p = subprocess.run(cmd, shell=True, cwd=cwd, capture_output=True, text=True, timeout=timeout)
        return p.returncode, (p.stdout + p.stderr)[-1500:], round(time.time() - t, 1)
    except subprocess.TimeoutExpired:
        return 124, "timeout", timeout
try:
    rs = os.path.join(dst, "run.sh")
    rc0, out0, t0 = run("bash %s %s" % (rs, wt), cwd=work, timeout=900)
    log["demo_without_change"] = dict(exit=rc0, tail=out0[-400:], s=t0)
    rc, out, _ = run("git apply %s" % patch, cwd=wt)
    log["patch_applies"] = rc == 0
    b = wt + "/build"
    rcb, outb, tb = run("cmake -G Ninja -S . -B build -DCMAKE_BUILD_TYPE=RelWithDebInfo -DCMAKE_CXX_FLAGS=-Wno-error -DCMAKE_C_FLAGS=-Wno-error >/dev/null && (cmake --build build -j8 -- -k 0 >/dev/null 2>&1; ctest --test-dir build -j3 --timeout 900)", cwd=wt)
    log["tests_with_change"] = dict(exit=rcb, tail=outb[-300:], s=tb)
    shutil.rmtree(b, ignore_errors=True)
    rc1, out1, t1 = run("bash %s %s" % (rs, wt), cwd=work, timeout=900)
    log["demo_with_change"] = dict(exit=rc1, tail=out1[-400:], s=t1)
    log["confirmed"] = bool(rc0 == 0 and log["patch_applies"] and rcb == 0 and rc1 != 0)
finally:
    subprocess.run(["git", "-C", "/repo", "worktree", "remove", "--force", wt], capture_output=True)
# which checks fire with the patch applied (scratch worktree + --repo, evidence written to a scratch dir, so that nothing in
# /repo or /verif/evidence is disturbed while other work goes on; tools/seed_matrix.py repeats this on /repo itself)
fired = {}
wt2 = "/tmp/confirmchk-%s" % sid
subprocess.run(["git", "-C", "/repo", "worktree", "remove", "--force", wt2], capture_output=True)
subprocess.check_call(["git", "-C", "/repo", "worktree", "add", "-q", "--detach", wt2, "HEAD"])
try:
    subprocess.check_call(["git", "-C", wt2, "apply", patch])
    claimed = [c["property_id"] for c in json.load(open("/verif/MANIFEST.json"))["checks"]]
    env = dict(os.environ, PSV_EVIDENCE_DIR="/tmp/confirmchk-ev-%s" % sid)
    for p in claimed:
        r = subprocess.run(["./check", p, "--tier", "quick", "--repo", wt2], cwd="/verif", capture_output=True, text=True, env=env)
        lines = [l for l in r.stdout.splitlines() if ": " in l and not l.startswith(("VIOLATION", "KNOWN", p + ":"))]
        fired[p] = dict(exit=r.returncode, reports=[l[:300] for l in lines][:6])
finally:
    subprocess.run(["git", "-C", "/repo", "worktree", "remove", "--force", wt2], capture_output=True)
    shutil.rmtree("/tmp/confirmchk-ev-%s" % sid, ignore_errors=True)
log["checks_with_patch"] = {p: v for p, v in fired.items() if v["exit"] != 0}
log["target_check_fires"] = fired.get(prop, {}).get("exit") == 1
meta = dict(seed=sid, property=prop, confirmed=log.get("confirmed"), detected_by=[p for p, v in fired.items() if v["exit"] == 1],
            analysis_broken_in=[p for p, v in fired.items() if v["exit"] == 2],
            ran=log, needs_to_manifest=open(os.path.join(dst, "notes.md")).read()[:1500] if os.path.exists(os.path.join(dst, "notes.md")) else "")
json.dump(meta, open(os.path.join(dst, "meta.json"), "w"), indent=1)
print(json.dumps(dict(seed=sid, confirmed=meta["confirmed"], detected_by=meta["detected_by"], broken=meta["analysis_broken_in"]), indent=0))
for p, v in log["checks_with_patch"].items():
    print(p, v["exit"], v["reports"][:2])
