"""Behaviour-preserving edits (renames of locals, guards and buffers, comments, shifted line numbers) applied to a scratch copy of /repo:
every check must stay silent.  Run: python3 tools/benign_refactor_test.py"""
import os, re, shutil, subprocess, sys, json
sys.path.insert(0,'/verif')
from psv import mutants
d=mutants.scratch_copy('/repo')
def sub(rel, pat, rep, count=0, regex=True):
    p=os.path.join(d,rel); s=open(p).read()
    n=len(re.findall(pat,s)) if regex else s.count(pat)
    assert n>0, (rel,pat)
    s=re.sub(pat,rep,s) if regex else s.replace(pat,rep)
    open(p,'w').write(s)
sub('include/photospline/detail/permute.h', r'\bt_order\b', 'tmp_order')
sub('include/photospline/detail/permute.h', r'\biperm\b', 'inverse')
sub('include/photospline/detail/permute.h', r'\bnpos\b', 'target')
sub('src/fitter/cholesky_solve.c', r'\bdone\b', 'finished')
sub('include/photospline/detail/fitsio.h', r'\bnameBuffer\b', 'nbuf')
sub('include/photospline/detail/fitsio.h', r'\bcleanup\b', 'closer')
sub('include/photospline/detail/fit.h', r'\bmaxIdx\b', 'largest')
sub('include/photospline/detail/fit.h', r'\bporder\b', 'pord')
sub('include/photospline/detail/fit.h', r'\bcleanup\b', 'undo')
sub('include/photospline/detail/aux.h', r'\bkeylen\b', 'klen')
sub('include/photospline/detail/aux.h', r'\bmaxdatalen\b', 'room')
sub('include/photospline/detail/convolve.h', r'\bn_rho\b', 'nnew')
sub('include/photospline/detail/convolve.h', r'\bconvorder\b', 'neworder')
sub('include/photospline/detail/bspline_eval.h', r'\bmin\b', 'lo')
sub('include/photospline/detail/bspline_eval.h', r'\(max\+lo\)', '(hi+lo)')
sub('include/photospline/detail/bspline_eval.h', r'uint32_t max = ', 'uint32_t hi = ')
sub('include/photospline/detail/bspline_eval.h', r'\t\t\t\tmax = centers', '\t\t\t\thi = centers')
sub('src/core/convolve.cpp', r'\bacc\b', 'product')
sub('include/photospline/detail/convolve.h', r'\bnorm\b', 'scale')
sub('include/photospline/detail/convolve.h', r'\btrafo\b', 'transfer')
sub('include/photospline/detail/convolve.h', r'\bstride2\b', 'inner')
sub('include/photospline/detail/convolve.h', r'\bq\b', 'kernel_degree')
sub('include/photospline/detail/fitsio.h', r'\bhduname\b', 'extname')
sub('include/photospline/splinetable.h', r'\bsnew\b', 'fresh')
sub('src/fitter/glam.c', r'\bfinitediff\b', 'Dmat')
sub('src/fitter/glam.c', r'\btmp2\b', 'factor')
sub('src/fitter/glam.c', r'\bboxedbases\b', 'bb')
sub('src/fitter/glam.c', r'\bpenalty_chunk\b', 'piece')
sub('include/photospline/detail/fit.h', r'\bsidelen\b', 'side')
sub('include/photospline/detail/fit.h', r'\bdummy_knots\b', 'kshim')
sub('include/photospline/bspline.h', r'/\* Special case for constant splines \*/', '/* constant splines */')
# comment + blank lines shift line numbers
sub('include/photospline/splinetable.h', r'#include <algorithm>', '// a comment\n\n\n#include <algorithm>')
sub('src/cinter/splinetable.cpp', r'#include <limits>', '#include <limits>\n// note\n\n')
res={}
for p in [c['property_id'] for c in json.load(open('/verif/MANIFEST.json'))['checks']]:
    r=subprocess.run(['/verif/check',p,'--repo',d],capture_output=True,text=True,env=dict(os.environ,PSV_EVIDENCE_DIR=d+'/_ev'),cwd='/verif')
    res[p]=r.returncode
    if r.returncode!=0:
        for l in r.stdout.splitlines():
            if not l.startswith(('VIOLATION','KNOWN')): print(p, l[:260].replace(d+'/',''))
print(res)
shutil.rmtree(d)
