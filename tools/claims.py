"""Claim table: what each check decides (used to generate MANIFEST.json)."""
TRUST = ("Trusted: clang 14 front end (AST, CFG construction, integer constant evaluator), the psx extractor, the rule tables in /verif/psv "
         "(accepted idioms, no-throw table for libstdc++ scalar algorithms); extern \"C\" libraries (cfitsio, CHOLMOD, libc) do not raise C++ exceptions. ")

CLAIMS = {
    "C18": dict(
        text="Decides the shape of every C wrapper on /repo's current sources: header/definition exhaustiveness, containment of every "
             "possibly-raising element (whole-program exception-effect fixpoint, operator new included) in a swallowing catch(...), failure "
             "values in handlers and rejections, propagation of bool failure results, handle/result ownership (no overwrite of a live handle, "
             "delete-then-null, single release after the throwing call, delete as the allocated C++ type), parameter/result forwarding. "
             "All wrappers, all paths. Does not decide numerical equality of results beyond forwarding, nor leak-freedom inside the C fitter "
             "beyond rule TS-5C.",
        note=TRUST + "Forwarding table (wrapper -> member, argument order) was derived from today's wrapper and is frozen in psv/rules/cw.py.",
        technique="custom AST/CFG lints: exception-effect summary + try containment, must-dataflow on handle state, forwarding table"),
}

NOT_APPLICABLE = {
    "C01": "numerical identity between a floating-point result and a mathematical sum over runtime knots/coefficients; no structural clause beyond those decided under C02/C04/C05",
    "C09": "numerical optimality of a sparse linear solve assembled through CHOLMOD; no clause visible in code shape",
    "C17": "numerical agreement of two evaluation routes through CHOLMOD products; no necessary structural clause",
}

# properties whose check is designed (DESIGN.md §4) but not yet built in this tree
PENDING = {p: "static check designed in DESIGN.md §4 but not built yet in this tree; not claimed until it runs"
           for p in ("C02", "C03", "C04", "C05", "C06", "C07", "C08", "C10", "C11", "C12", "C13", "C14", "C15", "C16", "C19", "C20")}
