"""Claim table: what each check decides (used to generate MANIFEST.json)."""
TRUST = ("Trusted: clang 14 front end (AST, CFG construction, integer constant evaluator), the psx extractor, the rule tables in /verif/psv "
         "(accepted idioms, no-throw table for libstdc++ scalar algorithms); extern \"C\" libraries (cfitsio, CHOLMOD, libc) do not raise C++ exceptions. ")

CLAIMS = {
    "C18": dict(
        text="Decides the shape of every C wrapper on /repo's current sources: header/definition exhaustiveness, containment of every "
             "possibly-raising element (whole-program exception-effect fixpoint, operator new included) in a swallowing catch(...), failure "
             "values in handlers and rejections, propagation of bool failure results, handle/result ownership (no overwrite of a live handle, "
             "delete-then-null, single release after the throwing call, delete as the allocated C++ type), parameter/result forwarding. "
             "All wrappers, all paths. Does not decide numerical equality of results beyond forwarding, nor leak-freedom inside the C fitter "
             "beyond rule TS-5C.",
        note=TRUST + "Forwarding table (wrapper -> member, argument order) was derived from today's wrapper and is frozen in psv/rules/cw.py.",
        technique="custom AST/CFG lints: exception-effect summary + try containment, must-dataflow on handle state, forwarding table"),
    "C08": dict(
        text="Decides, on the CFG of the instantiated writers (write_fits, write_fits_mem, write_fits_core and their scope-guard destructors), "
             "that no cfitsio status is dropped before a normal exit, that the success path passes through a checked fits_close_file with the "
             "guard disarmed, that creation status is checked before the handle is used, and that the two C write wrappers contain and map "
             "failures. All paths of those functions. Does not decide the behaviour of a reader on a truncated file (cfitsio runtime "
             "behaviour), nor byte-granularity crash points.",
        note=TRUST + "cfitsio inherited-status convention assumed (a call entered with non-zero status is a no-op).",
        technique="CFG dataflow (pending-status / must-pass-through checked close / guard typestate) over the instantiated writers"),
    "C12": dict(
        text="Decides the monitor discipline of the coordinator/worker hand-shake (walk_descents / evaluate_descent): lockset on the protected "
             "state, wait predicate re-tested under the mutex before every wait (no lost wake-up), broadcast after every state store before "
             "release, hand-off phases for worker-owned fields, thread lifecycle, ascending first-success selection, read-only use of objects "
             "shared by all workers. Disjunctive dataflow, all CFG paths, path-sensitive on constant locals. Does not decide equality of results "
             "across worker counts (argued only) nor races inside CHOLMOD.",
        note=TRUST + "POSIX condition-variable semantics; one mutex and one condition variable shared via trial 0 (checked).",
        technique="lockset / typestate dataflow over clang CFGs of the C fitter, shared-object effect table"),
}

NOT_APPLICABLE = {
    "C01": "numerical identity between a floating-point result and a mathematical sum over runtime knots/coefficients; no structural clause beyond those decided under C02/C04/C05",
    "C09": "numerical optimality of a sparse linear solve assembled through CHOLMOD; no clause visible in code shape",
    "C17": "numerical agreement of two evaluation routes through CHOLMOD products; no necessary structural clause",
}

# properties whose check is designed (DESIGN.md §4) but not yet built in this tree
PENDING = {p: "static check designed in DESIGN.md §4 but not built yet in this tree; not claimed until it runs"
           for p in ("C02", "C03", "C04", "C05", "C06", "C07", "C10", "C11", "C13", "C14", "C15", "C16", "C19", "C20")}
