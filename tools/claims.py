"""Claim table: what each check decides (used to generate MANIFEST.json)."""
TRUST = ("Trusted: clang 14 front end (AST, CFG construction, integer constant evaluator), the psx extractor, the rule tables in /verif/psv "
         "(accepted idioms, no-throw table for libstdc++ scalar algorithms); extern \"C\" libraries (cfitsio, CHOLMOD, libc) do not raise C++ exceptions. ")

CLAIMS = {
    "C18": dict(
        text="Decides the shape of every C wrapper on /repo's current sources: header/definition exhaustiveness, containment of every "
             "possibly-raising element (whole-program exception-effect fixpoint, operator new included) in a swallowing catch(...), failure "
             "values in handlers and rejections, propagation of bool failure results, handle/result ownership (no overwrite of a live handle, "
             "delete-then-null, single release after the throwing call, delete as the allocated C++ type), parameter/result forwarding. "
             "All wrappers, all paths. Also: no member function a wrapper forwards to dereferences a per-dimension array that some populating "
             "operation leaves null without testing it (NL-1; a crash is not a non-zero return); a FITS handle opened by a refused or failed read "
             "is closed on every path (RH-1); the fitter's own status results are examined (ED-4). Does not decide numerical equality of results "
             "beyond forwarding, nor leak-freedom inside the C fitter beyond rule TS-5C.",
        note=TRUST + "Forwarding table (wrapper -> member, argument order) was derived from today's wrapper and is frozen in psv/rules/cw.py.",
        technique="custom AST/CFG lints: exception-effect summary + try containment, must-dataflow on handle state, forwarding table"),
    "C08": dict(
        text="Decides, on the CFG of the instantiated writers (write_fits, write_fits_mem, write_fits_core and their scope-guard destructors), "
             "that no cfitsio status is dropped before a normal exit, that the success path passes through a checked fits_close_file with the "
             "guard disarmed, that creation status is checked before the handle is used, and that the two C write wrappers contain and map "
             "failures. All paths of those functions. Does not decide the behaviour of a reader on a truncated file (cfitsio runtime "
             "behaviour), nor byte-granularity crash points.",
        note=TRUST + "cfitsio inherited-status convention assumed (a call entered with non-zero status is a no-op).",
        technique="CFG dataflow (pending-status / must-pass-through checked close / guard typestate) over the instantiated writers"),
    "C12": dict(
        text="Decides the monitor discipline of the coordinator/worker hand-shake (walk_descents / evaluate_descent): lockset on the protected "
             "state, wait predicate re-tested under the mutex before every wait (no lost wake-up), broadcast after every state store before "
             "release, hand-off phases for worker-owned fields, thread lifecycle, ascending first-success selection, read-only use of objects "
             "shared by all workers, per-job accumulators of the worker reset inside the job loop, the worker leaves its start routine only in answer to TERMINATE. Disjunctive dataflow, all CFG paths, path-sensitive on constant locals. Does not decide equality of results "
             "across worker counts (argued only) nor races inside CHOLMOD.",
        note=TRUST + "POSIX condition-variable semantics; one mutex and one condition variable shared via trial 0 (checked).",
        technique="lockset / typestate dataflow over clang CFGs of the C fitter, shared-object effect table"),
    "C20": dict(
        text="Decides the ownership typestate of splinetable on the instantiated bodies of every mutator: at every possibly-raising element "
             "the object is untouched, or protected by a handler/guard that calls clear() (failed operation leaves it unchanged or empty); "
             "owned-pointer arrays are initialised before the next raising element; populating functions are entered only with a table "
             "known empty; clear()/move construction/move assignment cover every member with matching counts and leave the source empty; "
             "local new/malloc results are owned, returned or released on all exits; per-dimension arrays that a populating operation may leave null "
             "are dereferenced only under a null test (invariant computed from the populating operations), and count arrays are allocated before "
             "the arrays they size; an opened FITS handle is never abandoned; convolve refuses invalid arguments before any use. All CFG paths of all mutators. Does not decide "
             "behaviour over operation sequences against an abstract model, nor fancy-pointer allocators.",
        note=TRUST + "Exceptions arise only where the effect summary says (throw, operator new, calls to raising functions); deallocate does not raise.",
        technique="typestate / exception-safety dataflow over clang CFGs of instantiated templates; field-coverage and count-agreement checks"),
    "C13": dict(
        text="Decides that each hazardous use of a fit argument (table derived by reading the C fitter) is dominated by a throwing guard whose "
             "condition equals the required relation in canonical (affine, integer) form, that per-dimension guards cover every dimension and "
             "precede the first member store, that a failing fit cannot leave a modified unprotected table, and that the C wrapper maps "
             "throws to non-zero. Both container instantiations. Inside the solver only one memory-safety clause is decided: cached CHOLMOD array "
             "pointers are not read after a call that may move or free them, no field is read through a released object (SP-1/2); and every "
             "self-recursive routine reached from fit decreases a parameter by 1 and returns at the least value a caller can pass (RT-1); every variable-length array of the C fitter has an extent >= 1 over the "
             "admitted orders and dimension counts (KB-6f). Does not "
             "decide index arithmetic inside CHOLMOD/GLAM for valid arguments.",
        note=TRUST + "The hazard table (FIT_OBLIGATIONS) is the trusted specification of which relations are needed.",
        technique="required-guard dominance check with relational normal forms over the instantiated AST/CFG"),
    "C07": dict(
        text="Decides that a failing read leaves an empty destructible object (no-throw window + clear() coverage on read_fits, read_fits_mem, "
             "read_fits_core, file constructor), that every feasible normal exit of the reader is dominated by guards for nknots >= 2*order+2, "
             "naxes == nknots-order-1, finite and non-decreasing knots over all dimensions/knots, that no pixel transfer is longer than the array "
             "allocated for it, that the reader is entered only with an "
             "empty table, and that the C readers map failure to non-zero. Does not decide cfitsio's behaviour on corrupted bytes nor "
             "termination/safety of evaluation beyond what C04/C05 decide for well-formed tables.",
        note=TRUST + "cfitsio reports malformed HDUs through its status argument.",
        technique="typestate dataflow + required-guard dominance (relational normal forms), status known-zero pruning of infeasible returns"),
    "C15": dict(
        text="Decides, on the instantiated permuteDimensions, that every per-dimension member (set derived from clear()) is rewritten, that all "
             "attribute gathers use one (i, permutation[i]) index pair and are copied back to the member they came from, that the inverse map "
             "is built as inv[permutation[i]] = i and used only to scatter coefficients onto the new strides, that strides are recomputed from "
             "the permuted axes, that the argument is validated as a permutation before any member write, and that nothing raising follows the "
             "first member write; arrays a fitted or stacked table lacks are only touched under a null test. Identities by declaration, not by name. Does not decide the index arithmetic over runtime shapes nor the "
             "inverse round trip.",
        note=TRUST,
        technique="AST shape/agreement rules with alpha-normalised locals, field-coverage derived from clear(), typestate window"),
    "C16": dict(
        text="Decides: the whole auxiliary-key API instantiates; write_key decides every rejection before any allocation or store; one reserved-"
             "keyword predicate is shared by write_key, both reader passes and countAuxKeywords, and the passes skip the same cards in the same "
             "order; the predicate (its strncmp/strcmp tests applied abstractly) covers the keys the writer emits itself and the structural "
             "header keywords; the size_t length arithmetic cannot wrap (affine bound from the dominating guard); write_key/remove_key never "
             "leave a modified store unprotected. Does not decide the ordered-map semantics over operation histories.",
        note=TRUST + "Structural keyword table (SIMPLE, BITPIX, NAXIS*, EXTEND, END) is the trusted list of cards cfitsio writes itself.",
        technique="compile witness (driver unit), effect ordering on the CFG, sibling-loop agreement, abstract evaluation of the predicate, affine interval check"),
    "C05": dict(
        text="Decides the mechanisms that keep lookup and evaluation inside owned memory: knot vectors allocated as N+2*O doubles offset by O and "
             "released with the same affine forms at all 6 allocation sites; margin-shift loops bounded first (left >= 0, left < nknots-1) and "
             "entered only from the boundary centres in all 6 kernel instantiations; the SIMD lane cap dominating every lane store and core call "
             "in all 4 gradient bodies with NVECS*VECTOR_SIZE >= cap and VC <= NVECS for every reachable vector core; positive extents of all "
             "58 variable-length arrays; every one of the 216 knot/output/scratch index sites of the kernels (bsplvb per call site) stays inside the "
             "padded arrays by interval arithmetic on affine forms; rejection of unordered (NaN) coordinates; the centre range rules of C04; the "
             "dispatch table (which core, compiled for which dimension count, reads the per-dimension arrays; no fall-through). "
             "Does not decide safety on tables that are not well-formed, nor termination.",
        note=TRUST + "Assumes well-formed tables (decided for loaded tables under C07) and centres produced by searchcenters.",
        technique="affine-form agreement of allocation/release sites, guard-shape and dominance rules on instantiated kernels, abstract evaluation of the range test for unordered input"),
    "C04": dict(
        text="Decides the shape of centre lookup: acceptance test equal to first < x <= last (relational normal form, ordered semantics) as the first "
             "statement of every iteration, exactly one failure and one success exit, clamp targets order[i] / naxes[i]-1 under the right "
             "conditions, last-interval adjustment, search interval [order, nknots-2], bisection step and exit condition (so the bracket "
             "knot[c] <= x < knot[c+1] and order <= c <= nknots-order-2 hold whenever the search terminates), and the zero-on-failure wiring of "
             "the call operators. Does not decide termination of the binary search (a loop invariant over runtime knots; a solver's job, out "
             "of this family).",
        note=TRUST,
        technique="relational normal forms over the instantiated AST, exit/dominance structure"),
    "C03": dict(
        text="Decides that every evaluation path is the same computation structurally: all 58 (+2 without templates) dispatch assignments of "
             "get_evaluator<float|double> name the core their case labels require with matching scalar/vector pairs, definite assignment, no "
             "fall-through, identical guard/template lists for known orders; constexpr chunk helpers equal their products; all 108 instantiated "
             "scalar/SIMD cores reduce to the generic core's phases (seed, chunk count, accumulate, step, carry, refresh, driver loop) under the "
             "substitutions that define them; evaluator entry points are clones of the table's; C wrappers forward unchanged with the default "
             "precision. Does not decide bit identity under code generation (FMA contraction, vectorisation), a property of the binary.",
        note=TRUST + "Floating-point expressions are compared as trees (association order matters).",
        technique="dispatch-table agreement against resolved template arguments, clone detection by canonicalised statement signatures"),
    "C02": dict(
        text="Decides the derivative plumbing: every basis kernel (float/double) stores slot 0 of each output on every path (must-dataflow), the "
             "kernels agree on the order-0 case (value 1, derivative 0), every entry point (table/evaluator, float/double; value, bitmask, "
             "arbitrary order, gradient) selects the kernel from the derivative selector only and passes knots/nknots/x/centre/order of the same "
             "dimension, and the gradient lanes are wired value / derivative in lane 1+n / value. Does not decide numerical equality of any "
             "derivative, margins, or mixed partials.",
        note=TRUST + "bspline_deriv (recursive reference) is taken as the definition for derivative orders >= 2.",
        technique="must-write dataflow on kernels, sibling special-case agreement, call-site wiring rules"),
    "C06": dict(
        text="Decides FITS round-trip structure as schema agreement: the writer's HDU/key sequence, name patterns, BITPIX and axis reversal "
             "(from the resolved cfitsio calls of write_fits_core) equal the documented layout and cover every lookup of read_fits_core, readOrder "
             "and estimateMemory; every transfer's datatype code matches the buffer element type and the other side's code; BITPIX matches the "
             "element type; reads substitute no special values; the reserved-key filter and skip conditions are shared by all header passes; "
             "write_key refuses what a card cannot hold (class boundary at 8 characters, 68-character value limit, no unsigned wrap); a name "
             "formatted with an index moves the element with that index on both sides. "
             "Does not decide bit-exactness of cfitsio conversions, decoding of the shipped reference files, or independent readers/writers.",
        note=TRUST + "cfitsio implements the FITS standard for the calls used; datatype code table (TFLOAT=42, ...) from fitsio.h.",
        technique="schema extraction from resolved library calls, writer/reader/type-code agreement tables"),
    "C10": dict(
        text="Decides 'coefficients are non-decreasing along the monotonic dimension' structurally: monotonic branch solves with the non-negative "
             "solver and copies only its result; every store into the solution vector is 0, a sign-guarded copy, or a clamped trial value; the "
             "prefix sum has the row-major affine forms of the evaluator's layout with j from 1 and nothing writes the output afterwards; the "
             "lower-triangular change of basis is applied to basis and penalty of the same dimension; the solver's factor bookkeeping reads no "
             "moved or released CHOLMOD array (SP-1/2). Of the inactive-constraint sentence one necessary condition is decided: every term of the "
             "objective is written in the same (T-spline) unknowns — the penalty of every other dimension carries T'T in the monotonic slot "
             "(SG-6). Does not decide the rest of that sentence (what the solver returns when no constraint binds), nor non-finite data.",
        note=TRUST + "B-splines with non-decreasing coefficients are non-decreasing (assumed theorem); IEEE addition is monotone.",
        technique="sign-provenance classification of stores, affine index-form agreement, call-wiring rules on the C fitter"),
    "C11": dict(
        text="Decides ONE clause only: the vector returned by the solver used by fitting (nnls_normal_block3) is component-wise non-negative "
             "exactly, by sign provenance of every store into it (including through walk_descents/evaluate_descent) - plus memory safety of the "
             "factor-update path in one respect: no cached factor array is read after a call that may move it, no field through a released "
             "object; the constrained set a worker hands back is one job's (its count is reset inside the job loop); the solver declares convergence "
             "only with both change sets empty and the current point an exact solve over the free set (a necessary condition of the KKT clause: "
             "without it 5% of random systems came back non-optimal). KKT optimality as such, agreement "
             "with the unique minimiser, termination and the three other exported solvers are numerical and are not decided.",
        note=TRUST + "NaN data out of scope (a NaN trial value is not clamped).",
        technique="sign-provenance classification of stores into the solution vector; invalidation typestate for cached CHOLMOD arrays"),
    "C14": dict(
        text="Decides three structural clauses: factorial (the normalisation helper) is total on convolve's arguments including 0 and is the "
             "canonical product loop with a wide enough result; convolve updates exactly the convolved dimension's shape to order+n-1, "
             "nknots*n (counter in a perfect loop nest), nknots'-order'-1, recomputes strides, touches no other dimension, and cannot leave a "
             "modified unprotected table; the transfer matrix is filled for every (new, old) pair and applied to every slice by perfect "
             "counting-loop nests with the blossom arguments in their roles; the prefactor is q!(k-1)!/(k+q-1)! with no order-dependent sign; the "
             "kernels contain no absolute tolerance (unit equivariance); an out-of-range dimension and an empty kernel are refused before use. The convolution integral identity itself is numerical and is not decided.",
        note=TRUST + "Admitted range: order <= 5, kernels of <= 6 knots ((k+q-1)! <= 10!).",
        technique="unsigned-wrap/totality rule, symbolic post-state (affine forms) of the shape members"),
    "C19": dict(
        text="Decides that estimateMemory's size model has capacity (same element size, same affine count, same loop depth) for every allocation "
             "the reader makes through the allocator, with the auxiliary entries covered under the card-length lemma; that its convolution "
             "adjustments equal the shape convolve produces and precede the terms that use them; that the primary header (dimension, shape, orders, "
             "auxiliary-key count) is read while the primary HDU is current and ORDERn lands in order[n] in readOrder as in the reader; that convolve releases each member before allocating its replacement and uses the "
             "allocator for members only; and that owned members only ever receive allocator memory. Does not decide allocator overhead or "
             "files that are not well-formed.",
        note=TRUST + "Card-length lemma: strlen(key)+1+strlen(value)+1 <= 82 for any card cfitsio returns.",
        technique="allocation-site enumeration vs size-model terms (affine capacity matching), release-before-allocate dataflow, current-HDU typestate"),
    "C01": dict(
        text="Does NOT decide the numerical identity (value = sum of coefficient x product of Cox-de Boor basis functions). Decides structural "
             "prerequisites that are each necessary for it: in all 6 kernel instantiations the margin re-indexing loops are bounded first and "
             "entered from the boundary centres, and both margin shifts are reachable for every admitted knot-vector length - including the "
             "shortest, nknots = 2*order+2, where the two boundary centres coincide (on the original tree the right-margin shift sat in the "
             "else-branch of the left one: right-margin values of minimal tables were wrong, defect D35); every kernel writes slot 0 of its "
             "outputs on every path; the centre brackets the point with the statement's clamp/last-interval conventions; every entry point "
             "passes one dimension's knots/count/coordinate/centre/order to the kernel; all 108 optimised cores reduce to the generic core and "
             "the dispatch table selects the core its labels require.",
        note=TRUST + "The de Boor recurrence in bsplvb/bsplvb_simple is taken as correct (numerical).",
        technique="guard-shape, dominance and reachability rules on the instantiated kernels; clone detection; dispatch-table agreement"),
    "C09": dict(
        text="Decides ONE structural clause: the wiring of the penalised least-squares system. In fit: the penalty starts as the zero matrix of "
             "side prod(nknots[i]-order[i]-1) and receives, for every dimension i, add_penalty_term with that dimension's knots, order, penalty "
             "order and smoothing strength (scalars broadcast), which adds scale*calc_penalty (nothing for zero smoothing); calc_penalty builds the "
             "(n-p) x n divided-difference matrix row by row, forms D'D and Kronecker-extends it with identities in dimension order; "
             "glamfit_complex builds each dimension's basis from that dimension's knots/count/abscissae/order, F from the weights and R from "
             "weights*data, multiplies both along every dimension by that dimension's (boxed) basis, solves (F + penalty) c = R with the Cholesky "
             "route when no monotonic dimension is requested and copies every coefficient out. Statement shapes alpha-normalised, identities "
             "across statements by declaration. That the result minimises the objective (what box, slicemultiply, kronecker_product, "
             "divided_diffs and the solver compute) is numerical and is not decided.",
        note=TRUST + "box/slicemultiply/kronecker_product/divided_diffs/cholesky_solve are assumed to compute what their names say.",
        technique="call-wiring and statement-shape rules over the AST of the C fitter and the instantiated fit (alpha-normalised, declaration-linked)"),
    "C17": dict(
        text="Decides ONE structural clause: the wiring of grid evaluation. Row-major decomposition of the coefficient array with the table's "
             "strides into a sparse n-tuple of exactly the non-zero coefficients with the axis lengths as ranges; per dimension the table's own "
             "knots/knot count/order and that dimension's coordinate vector feed bsplinebasis, transposed, applied along the same dimension, for "
             "all dimensions; bsplinebasis fills basis(row,col) = bspline(knots,x[row],col,order) column-major with nknots-order-1 columns and "
             "its private bspline() is a clone of the library's reference; the status of slicemultiply is examined; the C wrapper forwards and "
             "hands the result over once. Numerical "
             "agreement with pointwise evaluation is not decided.",
        note=TRUST + "slicemultiply is assumed to compute the mode-i product (index arithmetic over runtime shapes, not analysed).",
        technique="call-wiring and sibling-clone rules over the instantiated AST (alpha-normalised)"),
}

# structural clauses added in rounds 6-8 (each a necessary condition of the statement; see DESIGN.md §4 "Additions of round 7 / 8")
ADDENDA = {
    "C01": "Also: no intermediate of a double instantiation is narrowed to float (PR-1); no function keeps state between calls (RE-1: no non-const static local, no store to a namespace-scope variable).",
    "C03": "Also: RE-1 (no state kept between calls).",
    "C04": "Also: the one operation that moves the per-dimension arrays lookup reads (permuteDimensions) moves them together (CL-5).",
    "C05": "Also: the recursive derivative reference is called for basis functions centre-order..centre only (CL-10); an empty table is refused before any per-dimension array is touched (ES-2, under C18/C20).",
    "C06": "Also: no entry of the orders array is read before it is written in the reader (FS-10, legacy single ORDER key); the reader's knot-order test is strict, so repeated knots are accepted (VG-2x); operator== is reflexive on NaN coefficients (FS-12).",
    "C07": "Also: the range short-cuts and termination premises of lookup (SC-1..5) and the gradient's lane budget (KB-3) on every table a read returns.",
    "C08": "Also: a reported failure of the disk writer leaves no file behind (ED-7: unwinding guard deletes, failed close removes the path); the writer core goes front to back (ED-8: no HDU navigation, each data unit written before the next HDU is created); no C library file operation with a discarded result (ED-6).",
    "C09": "Also: index products of the fit's n-dimensional arrays are formed in 64 bits (IW-1); a zero-weight entry's value does not enter the right-hand side (GW-7); no absolute threshold on the fit path (GW-8); every index column of every entry is stored after a product (GE-7).",
    "C10": "Also: IW-1; the free set grows by exactly the row being added (SP-5); the outer iteration cap of each block solver scales with the number of unknowns (SG-7).",
    "C11": "Also: cholmod_l_rowdel gets NULL or a pattern computed from the factor (SP-4); SP-5; SG-7; the sentinel of Lawson-Hanson's minimum search exceeds the bound of its candidates (SG-8).",
    "C12": "Also: RE-1 (no state outside the job structures shared between workers).",
    "C14": "Also: factorial and the product q!(k-1)! are formed in floating point (UW-1/UW-5 widths); after the sort the knot field is only read (UW-7); the caller's kernel is not read after the first release of table storage (UW-8); the numerical kernels never re-bind a parameter (UW-9).",
    "C15": "Also: the scatter store into the (uninitialised) scratch coefficient array runs for every position (CL-5 every-coefficient-relocated).",
    "C16": "Also: EXTNAME/HDUNAME (derived from the reader's search by name) and PCOUNT/GCOUNT are reserved (FS-5); keys and values are refused unless printable ASCII (KS-4); the reserved-name test is unconditional (KS-5).",
    "C17": "Also: every division by a knot span in bspline() is under a positive-span test (GE-6); no absolute threshold on the grid path (GE-5); every index column of every entry is stored after a product (GE-7).",
    "C18": "Also: a C++ bool is mapped to an error only where false means failure in the callee (CW-3b); lookup / get_evaluator / grideval refuse an empty table (ES-2); the window rule on the read path (TS-2), since the C reader constructs the table from the path.",
    "C19": "Also: estimateMemory locates every extension by name and type as the reader does (SM-8).",
    "C20": "Also: ES-2 (operations refuse an empty table); a handler hands back to the allocator only what was obtained (TS-10), the key array is released only where it exists (TS-10b); ndim is assigned before the arrays whose release depends on it (NL-3).",
}
for _k, _v in ADDENDA.items():
    CLAIMS[_k]["text"] = CLAIMS[_k]["text"].rstrip() + " " + _v

# structural clauses added in round 9 (DESIGN.md §4 "Additions of round 9")
ADDENDA9 = {
    "C02": "Round 9: the kernel selection is decided by evaluating the branch conditions over the finite selector domain (null / 0 / 1 / >= 2; every bit of the mask), whatever form the selection takes (if chain, switch, ?:).",
    "C03": "Round 9: the evaluation wrappers of the C interface reach the member they forward to on every path with valid pointer arguments (CW-9): the wrapper never decides by itself which tables to evaluate.",
    "C04": "Round 9: lookup touches the coordinates through comparisons only (SC-4, now also here): no arithmetic on a coordinate can produce an index.",
    "C05": "Round 9: how far a known-order core walks is its compile-time chunk count (DP-7, now also here).",
    "C06": "Round 9: no element of an array that fits_read_pix filled (coefficients, knots, extents) is stored again in the reader (FS-13).",
    "C07": "Round 9: the product of the image axis lengths is bounded by a throwing guard before it sizes the coefficient array (VG-2e; defect D64 repaired); the order-sized stack arrays of evaluation need a bounded order (KB-9; known finding D65: the reader accepts any consistent ORDERn).",
    "C10": "Round 9: the row deleted from / added to the factor is the coefficient that changes sets, in both arms of the permutation test (SP-6); a sub-factor copied by position is analysed with the given permutation forced (SP-7: nmethods = 1, postorder off on every path).",
    "C11": "Round 9: SP-6, SP-7.",
    "C16": "Round 9: a typed read keeps nothing between calls (RE-1, now also here).",
    "C17": "Round 9: the basis matrix applied along dimension i is computed in iteration i (GE-8: bsplinebasis and the transposition dominate slicemultiply inside the loop); the C wrapper stores *result on every exit (CW-8).",
    "C18": "Round 9: a result handed back through a pointer-to-pointer parameter is stored on every path to every return (CW-8); CW-9.",
}
for _k, _v in ADDENDA9.items():
    CLAIMS[_k]["text"] = CLAIMS[_k]["text"].rstrip() + " " + _v

# structural clauses added in round 10 (DESIGN.md §4 "Additions of round 10")
ADDENDA10 = {
    "C01": "Round 10: every statement of an evaluation core belongs to a phase of the generic core or to the driver loop (CL-1).",
    "C03": "Round 10: CL-1 accounts for every statement of a core; each path selects its kernels from the selector alone (CL-4, evaluated over every mask and derivative order).",
    "C05": "Round 10: nothing happens inside an assertion (AS-2).",
    "C06": "Round 10: the reader locates KNOTS<i> and EXTENTS by name, never by position (FS-14).",
    "C07": "Round 10: a single first-pixel index is handed to fits_read_pix only for an image tested to have one axis (VG-2f; defect D66 repaired); the dimension count is bounded by what cfitsio's pixel interface handles (VG-2g; D67 repaired).",
    "C09": "Round 10: the right-hand side handed to the solver has a value in every entry (GW-9).",
    "C10": "Round 10: GW-9; entries of the normal matrix are dropped only below machine epsilon (SP-8).",
    "C11": "Round 10: SP-8; leaving the outer loop on the iteration cap is not separated from convergence in any block solver (SG-9: known findings D69 — nnls_normal_block3 cycles with period 2 — and D70).",
    "C12": "Round 10: no lock, wait or store hides inside an assertion, which the NDEBUG build does not compile (AS-2).",
    "C13": "Round 10: each scalar argument is broadcast by its own length (GW-1, now also here).",
    "C14": "Round 10: the scratch array the transfer matrix is multiplied into starts from zero (UW-10).",
    "C16": "Round 10: a stored key or value is never modified in place (KM-5).",
    "C20": "Round 10: a container argument subscripted at a fixed position is refused unless it is long enough (KB-10; defect D68 in the stacking constructor repaired).",
}
for _k, _v in ADDENDA10.items():
    CLAIMS[_k]["text"] = CLAIMS[_k]["text"].rstrip() + " " + _v

# structural clauses added in round 11 and from the mutation analysis of the checks (DESIGN.md §4)
ADDENDA11 = {
    "C01": "Round 11: both margin walks of every kernel use strict comparisons (KB-2c: a point on a knot of the upper margin keeps the piece on its left).",
    "C02": "Round 11: KB-2c.",
    "C05": "Round 11: KB-2c.",
    "C06": "Round 11: strides are the row-major suffix products of the axes the reader installs (ST-1); the stacking order is one the number of tables supports (VG-6; defect D71 repaired); a missing PERIODn key leaves period 0 (FS-15).",
    "C07": "Round 11: the rows of the extents block are set up before the fallback for files without EXTENTS writes through them (NL-4).",
    "C08": "Round 11: a status test inside a lambda that captures the status word by copy is not a test of the status word (the normal form no longer folds such lambdas; ED-1 reports the statuses as dropped).",
    "C09": "Round 11: slicemultiply un-flattens the column number with the axis order it flattened it with (GE-9); strides of the fitted table are row-major (ST-1).",
    "C10": "Round 11: GE-9; the column search of get_column does not depend on the order of the stored entries (SO-2); the snapshot flag of the constrained set is assigned on both sides of the in-step test (SG-10).",
    "C11": "Round 11: SO-2, SG-10.",
    "C14": "Round 11: strides of the convolved shape are row-major (ST-1); the new knot field goes into the convolved dimension only (UW-11); no scratch is kept between calls (RE-1).",
    "C15": "Round 11: ST-1 on the permuted shape; RE-1; FS-15.",
    "C16": "Round 11: the string read returns the stored value as it is (KM-6); release sizes and the count of the key array (KM-7).",
    "C17": "Round 11: GE-9; RE-1.",
    "C19": "Round 11: the two helpers through which all storage goes ask the allocator for exactly the count they are given (SM-9).",
    "C20": "Round 11: ST-1 in all five building operations; the stacking constructor fills every per-dimension attribute (FC-1), interleaves the coefficients along the new axis (FC-2) and refuses an unsupported order (VG-6, D71); NL-4; KM-7; RE-1.",
}
for _k, _v in ADDENDA11.items():
    CLAIMS[_k]["text"] = CLAIMS[_k]["text"].rstrip() + " " + _v

ADDENDA12 = {
    "C05": "Round 12: no counting loop over an array of N entries runs to N inclusive (NB-1, evaluation files); every specialised core walks the coefficients as the generic core does (CL-1).",
    "C07": "Round 12: NB-1 on the reader; CL-1 (whichever core the evaluator selects for a loaded table).",
    "C09": "Round 12: ndsparse::insertEntry stores the value and the whole index tuple of an entry in one slot (GE-10).",
    "C10": "Round 12: the iteration budget of each block solver grows with the number of unknowns (SG-11).",
    "C11": "Round 12: SG-11.",
    "C13": "Round 12: NB-1 on the fit path.",
    "C14": "Round 12: NB-1 on convolve.",
    "C15": "Round 12: the flag the duplicate test of the permutation reads is set for every accepted entry (VG-3 seen-flag-set); NB-1.",
    "C16": "Round 12: an overwrite replaces the value in the entry the search found; write_key calls no member that restructures the store (KM-4 overwrite-keeps-position).",
    "C17": "Round 12: GE-10; NB-1 on grid evaluation.",
    "C18": "Round 12: splinetable_init constructs a table, and both constructing wrappers store it in the handle (CW-5).",
    "C19": "Round 12: every string the reader stores for an auxiliary key is copied out of a local character array of constant extent, which is what the per-key budget of the model bounds (SM-10).",
    "C20": "Round 12: NB-1 over the whole library.",
}
for _k, _v in ADDENDA12.items():
    CLAIMS[_k]["text"] = CLAIMS[_k]["text"].rstrip() + " " + _v

NOT_APPLICABLE = {
}

# properties whose check is designed (DESIGN.md §4) but not yet built in this tree
PENDING = {}
