#!/usr/bin/env python3
"""Regenerate the seeded-changes table of DESIGN.md (between the SEED-TABLE markers) from seeded/*/meta.json, seeded/MATRIX.json and the
hand-written one-line summaries below (what the change is, what it needs in order to manifest, and whether the checks caught it when it
arrived or only after being strengthened)."""
import glob, json, os, re

os.chdir("/verif")
SUMMARY = {
    "C02-1": ("`bspline_deriv` base cases reordered (order==0 case after n==0)", "derivative order == spline order >= 2", "missed at first (numerical reference, not claimed); CL-6 added"),
    "C02-2": ("`v_eval_ptr` of the {2,2,2,5,2,2} arm points at the {2,2,2,3,2,2} vector core", "6-D table of exactly that order pattern, gradient through an evaluator", "caught (DP-3; C02 now runs the dispatch rules too)"),
    "C03-1": ("accumulation in the known-order scalar core re-associated (`partial +=`, then `result += tree*partial`)", "6-D known-order table, bitwise comparison of paths", "caught"),
    "C04-1": ("upper clamp `>=` -> `>` in `searchcenters`", "repeated knot at the right end, x exactly on it (centre out of range / search never ends)", "caught"),
    "C04-2": ("table `operator()` returns 0 early when x is outside the extents", "point in the partially supported margin", "caught (SC-3; first run hit an internal error in the rule, fixed)"),
    "C05-1": ("same edit as C04-1 (independent agent)", "as C04-1, ASan overflow in the coefficient walk", "caught (SC-2 now also runs under C05)"),
    "C06-1": ("`fits_read_pix` for the coefficients given a non-null `nulval`/`anynul`", "inf, denormal or -0 coefficients", "caught"),
    "C07-1": ("knot validation replaced by `std::is_sorted` + finite ends", "interior NaN knot in a crafted file", "caught"),
    "C07-2": ("`if(knots[i])` guard removed from `clear()`", "read failing after the knot pointer array is allocated, before the last knot vector", "caught"),
    "C08-1": ("close status written to a new local while the old `error` is tested", "I/O failure that surfaces at close", "caught"),
    "C10-1": ("`x_F[i] < 0` -> `< -kkt_tolerance` in the infeasibility count of `nnls_normal_block3`", "data of magnitude ~1e-8 (negative increments inside the tolerance)", "caught"),
    "C11-1": ("same edit as C10-1 (independent agent)", "degenerate / badly scaled systems", "caught"),
    "C12-1": ("TERMINATE stored and broadcast without the mutex", "worker between its test and its wait", "caught"),
    "C12-2": ("worker's `state = WAIT; broadcast` without the mutex", "last worker reports between the coordinator's test and wait", "caught"),
    "C13-1": ("penalty-order check loops over `penaltyOrder.size()` instead of all dimensions", "2-D fit, one broadcast penalty order above a later dimension's order", "caught"),
    "C13-2": ("`coords[i].size()` check moved into the first per-dimension loop, before `coords.size()` is checked", "fewer coordinate vectors than dimensions", "missed at first; VG-1 index-after-count added"),
    "C14-1": ("truncated-power test `> 0.0` -> `> FLT_EPSILON` in `convoluted_blossom`", "knot sums closer than 1.2e-7 (axis in small units)", "missed at first (numerical clause); caught since UW-6 (no absolute tolerance in the scale-equivariant kernels) was added for seed C14-3"),
    "C15-1": ("coefficient scatter uses `permutation[i]` instead of the inverse map", "a 3-cycle on >= 3 dimensions", "caught"),
    "C15-2": ("validated entry narrowed: `size_t j` -> `uint32_t j`", "an entry >= 2^32 whose low bits are a missing index", "missed at first; VG-3 entry-not-narrowed added"),
    "C16-1": ("short/long key boundary `keylen<=9` -> `<=8`", "key of exactly 8 characters with punctuation or a 60-68 character value", "missed at first; KS-1 added"),
    "C16-2": ("`get_aux_value` compares with `strncmp(key, stored, strlen(key))`", "lookup key that is a proper prefix of an earlier key", "missed at first; KM-1 added"),
    "C17-2": ("`bsplinebasis` shortcut stores 0 when `x <= knots[col]`", "order-0 axis with a grid point exactly on a knot", "caught"),
    "C18-1": ("`readsplinefitstable` deletes the old table inside the try", "occupied handle + failing read, then any use", "caught"),
    "C19-1": ("`convolve` allocates the new knot vector before freeing the old and keeps the others", "convolution along an axis with several hundred knots", "caught"),
    "C20-1": ("`write_key` update path frees the old value before allocating", "allocation failure at exactly that point", "caught"),
    "C03-2": ("`break` lost after `case 6` of the per-dimension evaluator dispatch (falls into `case 7`)", "6-D table served by the per-dimension specialisation; 7-D cores then read past the per-dimension arrays", "caught (DP-2)"),
    "C05-2": ("same edit as C03-2 (independent agent)", "as C03-2; the wrong core reads past the per-dimension arrays", "missed at first under C05 (caught under C03); C05 now runs the dispatch rules"),
    "C06-2": ("`maxdatalen` 68 -> FLEN_VALUE-1 in `write_key`", "auxiliary string value of 69-70 characters (truncated on write, round trip differs)", "missed at first under C06 (KS-1 ran only under C16); C06 now runs KS-1/UW-3"),
    "C08-2": ("EXTENTS HDU written with a private status that is only printed", "I/O failure (full device) surfacing while that HDU is written", "caught (ED-1)"),
    "C10-2": ("t-spline to b-spline running sum in `glamfit_complex` loses `*stride2` in the block base", "fit with >= 3 dimensions and the monotonic dimension strictly inside", "caught (SG-3)"),
    "C14-2": ("transfer matrix filled only in a band (`j < min(i/(q+1)+1, naxes)`)", "convolution where a new spline overlaps old splines outside the band", "missed at first; UW-4 (perfect fill / apply nests) added"),
    "C18-2": ("`if(periods)` guards removed from `permuteDimensions`", "handle populated by fit (periods null), then permute: crash", "missed at first; NL-1 added (which also found D27, D28)"),
    "C19-2": ("knot term of `estimateMemory` moved before `nknots *= n`", "any convolution declared to estimateMemory", "missed at first; SM-2 adjust-before-count added"),
    "C11-3": ("per-job reset `trial->nH1 = 0` (and the list allocation) hoisted out of the worker's job loop", "fewer workers than trial steps (OMP_NUM_THREADS=1) and a line search whose first steps fail", "missed at first; MT-9 (job accumulators reset inside the loop) added"),
    "C13-3": ("`divided_diffs` recursion stopped at `porder == 1` (closed form) instead of `porder == 0`", "non-zero smoothing with penalty order 0: unbounded recursion, stack overflow", "missed at first; RT-1 (well-founded recursion) added"),
    "C17-3": ("loop forcing `nd->ranges[dim] = naxes[dim]` removed from `grideval`", "coefficient array whose top slab(s) along a dimension are all zero", "caught (GE-1)"),
    "C18-3": ("`read_fits_mem`: occupied check moved after `fits_open_memfile`, before the closing guard", "failed read from memory into an occupied handle: leaks a cfitsio handle each time", "missed at first; RH-1 (opened handle never abandoned) added"),
    "C19-3": ("`readOrder` stores `ORDERn` into `order[ndim-1-n]`", "mixed, non-palindromic orders and a convolution in the lower-order dimension", "missed at first; FS-8 (name index = data index) added"),
    "C20-3": ("`fit`'s cleanup guard moved below the allocation block", "allocator failure during fit's setup: half-built non-empty table", "caught (TS-2)"),
    "C07-3": ("EXTENTS size guard `!= 2*ndim` -> `< 2*ndim` in the reader", "crafted header with NAXIS1 > 2*ndim in the EXTENTS HDU: heap overflow while reading", "missed at first under C07 (caught under C06: FS-7); C07 now runs FS-7"),
    "C09-3": ("one shared `size()>1` flag and index for `penaltyOrder` and `smoothing` in fit's penalty loop", "smoothing and penalty order given with different multiplicities", "caught (GW-1; also VG-1 under C13)"),
    "C12-3": ("coordinator's completion loop rewritten as `while(!done){ wait; check; }`", "workers finish before the coordinator re-acquires the mutex: lost wake-up, hang", "caught (MT-2)"),
    "C14-3": ("`divdiff` returns 0 when the knot span is below FLT_EPSILON", "axis in small absolute units (ns-scale knots in seconds)", "missed at first; UW-6 (no absolute tolerance in the scale-equivariant kernels) added — it also catches C14-1"),
    "C16-3": ("blank-trimming loop in the aux reader tests `value[vlen-1]` instead of `vbegin[vlen-1]`", "unpadded value whose second-to-last character is a blank, then a round trip", "missed at first; KM-2 (one start/length view) added; a correct trim stays silent"),
    "C08-3": ("`write_fits` wraps `write_fits_core` in try/catch(...) that deletes the file and does not re-raise", "a transient write failure during the bulk coefficient write (4-d/5-d tables)", "missed at first; ED-5 (no handler on the write path absorbs a failure) added"),
    "C02-3": ("zero-fill branch `derivatives[n] >= order[n]` added to both `ndsplineeval_deriv`s", "derivative order equal to the spline order (>= 2): non-zero piecewise constant returned as 0", "missed at first; CL-7 added (a shortcut confined to `>` stays silent)"),
    "C03-3": ("one of the three basis kernels handles the margins differently from the other two (delivered against the tree before D35; adapted: `else` restored in `bspline_nonzero` only)", "minimal-knot dimension (nknots = 2*order+2), point above the upper extent: gradient paths differ from plain paths", "the agent's tree exposed D35 itself; adapted seed caught by KB-2b (now also run under C03)"),
    "C04-3": ("bisection step `x < knots[c]` -> `x <= knots[c]`", "coordinate equal to a repeated knot inside the searched range: the search never ends", "caught (SC-2/SC-5)"),
    "C05-3": ("evaluator gradient guard `ndim+1 > MAXDIM` -> `ndim > MAXDIM`", "8-dimensional table through the evaluator's gradient: 9 lanes into 8-lane buffers", "caught (KB-3)"),
    "C06-3": ("`strcmp(\"END\", key)` -> `strncmp(\"END\", key, 3)` in `reservedFitsKeyword`", "auxiliary keys beginning with END (ENDTIME ...): refused by write_key, dropped by the reader", "missed at first; FS-5b (reserved families frozen with their kind of match) added"),
    "C10-3": ("`fitmat->stype = 1` set in `glamfit_complex` before the solve", "monotonic fit whose upper region has no data: the solver drops the lower triangle and never releases constrained coefficients", "missed at first; GW-5 (system handed over untouched) added"),
    "C15-3": ("`orders_are` matches the order list as a multiset (`std::is_permutation`)", "table {2,2,2,3,2,2} permuted so that the order-3 dimension is last, evaluated through the evaluator object", "missed at first; DP-8 (admission predicate is position-wise) added"),
    "C01-4": ("hand-rolled bisection in `searchcenters` replaced by `std::lower_bound` (should be upper_bound)", "point exactly on an interior knot of an order-0 axis or a knot of full multiplicity", "caught (SC-2/SC-5: the search no longer has the recognised shape)"),
    "C02-4": ("`derivs[j] = derivs[j-i]` -> `derivs[j-1]` in the right-margin re-indexing of `bspline_nonzero`", "gradient at a point two or more intervals into the right margin, order >= 2", "missed at first; KB-7 (values and derivs move in lock-step) added"),
    "C03-4": ("`PHOTOSPLINE_MAXDIM` 8 -> 9 (as the error message suggests); NVECS = 9/4 still 2", "gradient of an 8-dimensional table: 9 lanes into 8-lane buffers, paths disagree", "missed at first under C03 (caught under C05: KB-3); C03 now runs KB-3"),
    "C04-4": ("helper setting MXCSR flush-to-zero / denormals-are-zero, called from both gradient routines, never restored", "a gradient evaluation earlier on the thread, then denormal coordinates or knots in lookup", "missed at first; ENV-1 (nobody writes the floating-point control state) added"),
    "C05-4": ("zero-fill loop `j < degree` -> `j <= degree` in `bsplvb_simple`'s lower-margin re-indexing", "point in the lower margin of the last dimension: one element past the stack buffer", "caught (KB-5 affine index range)"),
    "C06-4": ("`ext_error` cleared after a failed move to EXTENTS", "legacy file without EXTENTS whose last axis has exactly 2*ndim knots: knots read as extents", "missed at first; SM-6 (a failed HDU move keeps its status until tested) added"),
    "C07-4": ("`readsplinefitstable`: `splinetable_free` replaced by a bare `delete` (handle not nulled)", "successful read, then failing read into the same handle, then any use", "missed at first under C07 (caught under C18: CW-4); C07 now runs CW-4 on the readers"),
    "C08-4": ("reader returns false instead of throwing when a KNOTS data unit is short (callers ignore the bool)", "file truncated inside a knot vector: loads as a different table", "missed at first under C08 (caught under C07: VG-2); C08 now runs VG-2"),
    "C09-4": ("`kronecker_product(tmp2, result)` instead of `(result, tmp2)` in `calc_penalty`", ">= 2 dimensions that differ (knots, orders, smoothing) with non-zero smoothing", "caught (GW-3)"),
    "C10-4": ("`get_column`'s exhaustive search replaced by a single merge pass", "second consecutive single-coefficient release whose index is not the largest free one", "missed at first; SO-1 (no search position carried across requested rows) added"),
    "C11-4": ("same edit as C10-1 (independent agent, round 4)", "degenerate systems whose optimum has exact zeros with zero multiplier", "caught (SG-2)"),
    "C12-4": ("worker returns at once when `sched_setaffinity` fails (instead of only printing)", "more workers than CPUs the process may run on: the coordinator waits for a worker that has left", "missed at first; MT-10 (the worker leaves only in answer to TERMINATE) added"),
    "C13-4": ("knots-vs-order guard rewritten as `nsplines = size-order-1; if(nsplines < order+1)` (unsigned wrap)", "knot vectors shorter than order+1 in two dimensions at once", "caught (VG-1: guard not in the required relational form)"),
    "C14-4": ("transfer-matrix multiply rewritten with hoisted pointers; input slab offset loses `*stride2`", "convolved dimension strictly inside a table of >= 3 dimensions", "caught (UW-4: the apply statement no longer has the recognised index form)"),
    "C15-4": ("C wrapper `splinetable_permute` returns 0 early when the index array `is_sorted`", "sorted malformed argument ({0,0,2}, {0,1,3}) through the C interface", "caught (CW-2: an early return of 0 is not an argument rejection)"),
    "C16-4": ("`remove_key` moves the last entry into the hole (`std::swap` + `std::copy`)", ">= 3 keys, removal of one before the second-to-last, order observed", "missed at first; KM-4 (order-preserving key store) added"),
    "C17-4": ("`slicemultiply` returns 0 early when the product is structurally empty, before the shape update", "sparse coefficient array and a grid wholly off the populated slices", "missed at first; GE-4 (shape update on every successful return) added"),
    "C18-4": ("`clear()` returns early when `ndim == 0`", "keys written to a handle that holds no spline, then free: aux storage leaked", "missed at first; TS-6 (release independent of ndim) added"),
    "C19-4": ("`std::reverse(naxes)` dropped from `estimateMemory`", "declared convolution on a table whose coefficient grid is not symmetric under dimension reversal", "missed at first; SM-7 (axis reversal in every reader of the image size) added"),
    "C20-4": ("`this->coefficients=nullptr` after the release removed from `convolve`", "allocation failure at the first allocator request inside convolve: double free through the guard", "missed at first; TS-7 (released member re-pointed before the next raising element) added"),
    "C01-5": ("scratch arrays of the generic core `basis_tree[ndim+1]`, `decomposedposition[ndim]` made fixed-size `[PHOTOSPLINE_MAXDIM(+1)]`", "a 9-dimensional table (MAXDIM is the gradient's lane budget, not a limit of the format): stack overflow by one element", "missed at first; KB-8 (constant-extent stack arrays vs runtime index ranges) added"),
    "C02-5": ("evaluator's gradient scratch arrays `Float valbasis[..]` declared `float`", "`get_evaluator<double>()` + gradient compared at double precision", "missed at first under C02 (caught under C03: CL-2); C02 now runs CL-2"),
    "C03-5": ("`orders_are` folds the size check into the loop (prefix match)", "7-9 dimensional table whose first six orders are {2,2,2,3,2,2} or {2,2,2,5,2,2}, through the evaluator", "caught (DP-8)"),
    "C04-5": ("up-front range test removed from `searchcenters`, bounds only tested inside the margin branches", "order-0 or clamped left end and a coordinate exactly on the first knot", "caught (SC-1/SC-2/SC-5)"),
    "C05-5": ("range test rewritten in the upstream form `x <= first || x > last`", "NaN coordinate and a dimension with order >= 4 on a short knot vector", "caught (SC-4)"),
    "C06-5": ("writer's `naxes`/`fpixel` heap arrays made `long[PHOTOSPLINE_MAXDIM]`", "a 9-dimensional table written to disk or memory", "caught (FS-7; KB-8 since)"),
    "C07-5": ("readers' cleanup handler narrowed from `catch(...)` to `catch(const std::runtime_error&)`", "a read that fails with std::bad_alloc (huge NAXISn, or injected)", "caught (TS-2)"),
    "C08-5": ("unchecked `fits_flush_file` added at the end of `write_fits_core`", "I/O failure surfacing while the buffered blocks are flushed", "caught (ED-1)"),
    "C09-5": ("`bsplinebasis` zero-initialised and skipping points with `x <= knots[col]`", "order-0 dimension with a data abscissa exactly on a knot", "missed at first; GE-3 every-entry-filled added and run under C09"),
    "C10-5": ("T-spline conversion of the monotonic dimension's penalty replaced by accumulating each stencil from the right (re-based after D42)", "monotonic fit with penalty order 0 and non-zero smoothing", "caught (SG-4)"),
    "C11-5": ("`0 < alpha < 1` admission test removed from the line search's candidate list", "a coordinate exactly at 0 that wants to decrease: candidate 0, the solver never terminates", "missed at first; LS-1 (candidates strictly inside (0,1)) added"),
    "C12-5": ("worker's `nH1 = 0` moved into the `if (!trial->H1)` branch", "fewer workers than trial steps and an accepted step outside the first block", "caught (MT-9)"),
    "C13-5": ("monodim converted to a signed index before the range check `monoIdx >= (int)ndim` (re-based after D42)", "monodim in 0x80000000..0xFFFFFFFE", "caught (VG-1)"),
    "C14-5": ("`std::sort(rho, rho+n_rho)` replaced by merging each run with its neighbour only", "kernel spanning more than 2-3 knot intervals", "missed at first; UW-7 (whole field sorted) added"),
    "C15-5": ("scratch buffer of the periods made `std::vector<float>`", "a table read from FITS with PERIODn not representable in single precision", "missed at first; CL-5 gather-type (scratch has the member's element type) added"),
    "C16-5": ("writer's aux loop uses `fits_update_key` instead of `fits_write_key`", "a key `HIERARCH`, or a long key beginning with HIERARCH, stored after another key it matches by cfitsio's rules", "missed at first; FS-9 (data-named cards are appended) added"),
    "C17-5": ("`bsplinebasis` zero-initialised, row loop left at the first point beyond the column's support", "unsorted, descending or late-repeated grid abscissae", "missed at first; GE-3 every-entry-filled (perfect nest, no jumps) added"),
    "C18-5": ("`cleanup.fits=NULL` moved after the checked close in `write_fits`", "a write whose final close fails: the guard closes the released handle again", "missed at first; ED-2 guard-disarmed-before-the-close added, ED writer rules run under C18"),
    "C19-5": ("`countAuxKeywords(fits)` folded into its use after the KNOTS loop", "file with 20 or more long auxiliary keys", "caught (SM-4)"),
    "C20-5": ("`remove_key` compacts the entries in place and decrements `naux`", "any later release of the key array, seen by a size-checking allocator", "missed at first; TS-8 (naux changes only with a newly allocated array) added"),
    "C01-6": ("the two independent margin tests of `bsplvb_simple` folded into `if {...} else if {...}`", "axis with exactly 2*order+2 knots (order >= 1) and a point in its upper margin", "caught (KB-2b)"),
    "C02-6": ("degree-0 indicator of the reference `bspline()` rewritten early-out style, upper bound `>=` lost its `=` (closed interval)", "derivative order >= 2 at a coordinate exactly on an interior knot", "missed at first under C02 (caught under C09/C17: GE-3 clone); CL-9 (half-open indicator, by path facts) added"),
    "C03-6": ("same edit as C02-5 (independent agent): evaluator's gradient scratch arrays declared `float`", "`get_evaluator<double>()` + gradient, bitwise comparison of paths", "caught (CL-2)"),
    "C04-6": ("`int centers[ndim]` in the call operator made `int centers[PHOTOSPLINE_MAXDIM]`", "a table of more than 8 dimensions through `operator()`: lookup writes past the scratch array", "missed at first; KB-8 extended to arrays handed to a callee that indexes its parameter up to ndim, and run under C04"),
    "C05-6": ("`assert(knots[left] <= x && x < knots[left+1])` added to `bsplvb`", "assertions enabled and a coordinate exactly on the upper extent, a knot of the upper margin or the last knot, through a gradient or derivative entry point", "missed at first; AS-1 (every assertion on the evaluation path is of a discharged kind) added"),
    "C06-6": ("reader strips trailing blanks from string values of exactly 8 characters", "auxiliary string value of at most 8 characters ending in a blank", "caught (KM-3)"),
    "C07-6": ("64-bit casts removed from the knots-vs-order guard that precedes the padded allocation", "ORDERn edited to 2^31 or more: wild write in `fits_read_pix`", "caught (VG-2c)"),
    "C08-6": ("`write_fits` writes to `path.part` and moves it with `rename()`, result ignored", "the final rename fails (target is a directory, EIO): success reported, an older table still loads from the path", "missed at first; ED-6 (no dropped result of a C library file operation on the write path) added"),
    "C09-6": ("denominator of `divided_diffs` written with a local `span`: the knot window starts at j instead of j+porder", "non-zero smoothing, irregular knots, penalty order >= 1", "missed at first; GW-6 (de Boor's recurrence for the derivative stencil, index polynomials) added"),
    "C10-6": ("block factor converted with `to_ll = L_F->is_ll` instead of `false` in `recompute_factor`", "free block large and dense enough for a supernodal LL' factorisation, then a single-coefficient change", "missed at first; SP-3 (factor form constants) added"),
    "C11-6": ("shift loops of the pending sets replaced by `memmove(..., count*sizeof(int))` on `long` arrays", "a clipped coefficient released in the same outer iteration with two or more pending changes behind it", "missed at first; MM-1 (sizeof in a byte count has the destination's element size) added"),
    "C12-6": ("coordinator signals once per dispatched step (`pthread_cond_signal`) instead of one broadcast", "a block with fewer steps than parked workers and the dispatched worker not at the head of the wait queue", "caught (MT-3)"),
    "C13-6": ("order-count check `!= ndim` relaxed to `< ndim`", "more spline orders than dimensions: `std::copy` writes past the `order` block", "caught (VG-1)"),
    "C14-6": ("`factorial` rewritten as the recursion `n > 1 ? n*factorial(n-1) : n`", "convolution along a dimension of order 0 (factorial(0) = 0)", "caught (UW-1)"),
    "C15-6": ("early return moved before the validation and widened to `ndim < 2`", "1-d table and an out-of-range single index", "caught (ZD-1)"),
    "C16-6": ("reader collapses every run of adjacent quotes to one", "value with two or more adjacent single quotes", "caught (KM-3)"),
    "C17-6": ("`cholmod_l_drop(DBL_EPSILON, ...)` added after the product in `slicemultiply`", "coefficients of absolute scale below ~1e-15", "missed at first; GE-5 (no absolute threshold in grid evaluation) added"),
    "C18-6": ("penalty-order check moved from the sanity block into the penalty loop, after `cholmod_l_start`", "a fit with penaltyOrder > splineOrder under a leak checker: workspace and penalty matrix leaked", "missed at first under C18 (caught under C09/C13); RH-2 (nothing raised while the CHOLMOD workspace is held) added"),
    "C19-6": ("per-card `error = 0` removed from `countAuxKeywords`", "file from a foreign writer with an unparsable card in front of 20+ auxiliary keys", "missed at first under C19 (FS-4 ran under C06/C16 and did not look at the reset); FS-4 extended (status reset before each card read) and run under C19"),
    "C20-6": ("move assignment implemented as member-wise swap", "assignment into a populated table, then the source inspected or reused", "caught (TS-4)"),
    "C01-7": ("accumulator of `ndsplineeval_coreD_FixedOrder` declared `float` instead of `Float`", "`get_evaluator<double>()` on a table of constant order 2 or 3 in 1-8 dimensions", "missed at first; PR-1 (no narrowing in the double instantiations) added"),
    "C02-7": ("bitmask entry points find 'the' differentiated dimension once with `__builtin_ffs(derivatives)-1`", "a mask with two or more bits (mixed partial)", "caught (CL-4)"),
    "C03-7": ("left-piece nudge of `evaluator_type::ndsplineeval_deriv` made strict (`xn >` the next knot)", "derivative order >= 2 exactly at the upper extent, evaluator against table and C paths", "caught (CL-2)"),
    "C04-7": ("`permuteDimensions` gathers the knot counts with the inverse permutation (`t_nknots[j] = nknots[i]`)", "a permutation that is not its own inverse on a table with unequal knot counts, then a lookup", "missed at first under C04 (caught under C15: CL-5); C04 now runs CL-5"),
    "C05-7": ("`vectorCountHelper::VC` round-up simplified to `(D+1+VS)/VS`", "7-dimensional table through the evaluator's gradient", "caught (KB-3)"),
    "C06-7": ("legacy single `ORDER` key read into a local `int`, `order[0]` never assigned before `std::fill` copies it", "legacy file with one ORDER key", "missed at first; FS-10 (orders defined before they are read) added"),
    "C07-7": ("upper short-cut of `searchcenters` made strict (`x > knots[naxes]`)", "table whose last supported knot is repeated, lookup exactly there: centre out of range / endless bisection", "missed at first under C07 (caught under C01/C04: SC-2, SC-5); C07 now runs the SC rules"),
    "C08-7": ("coefficients written last, after `fits_movabs_hdu(fits, 1)`, once keys, knots and extents are in place", "crash after a later HDU reached the disk and before the coefficients did (knot vector > 1080 knots)", "missed at first; ED-8 (writer goes front to back) added"),
    "C09-7": ("`flatten_ndarray_to_sparse` accumulates the flattened index with an `int` stride", "more than 65536 coefficients (flattened index of the normal matrix beyond 2^32)", "missed at first; IW-1 (64-bit index products) added — also found D52"),
    "C10-7": ("`T'T` factor of the other dimensions' penalty computed with stype 1 (upper triangle only)", "monotonic dimension after a smoothed one, constraint inactive", "caught (SG-6)"),
    "C11-7": ("`cholmod_l_rowdel` given the column of A (restricted to the free set) as row pattern instead of NULL", "sparse system whose factor has fill-in in the row being constrained (ring, grid), rank-1 downdate path", "missed at first; SP-4 (row pattern NULL or from the factor) added"),
    "C12-7": ("coordinator leaves the completion loop as soon as a step reduced the residual and all earlier steps reported", "fewer workers than steps, accepted step not the last of its block, a straggling worker: TERMINATE overwritten, join hangs", "caught (MT-4, MT-6)"),
    "C13-7": ("count checks of `smoothing` / `penaltyOrder` rewritten as `size()>1 && size()!=ndim`", "an empty smoothing or penalty-order list: `X[0]` of an empty vector", "caught (VG-1)"),
    "C14-7": ("`std::unique(rho,rho+n_rho)` after the sort, result dropped, count unchanged", "two pairwise sums exactly equal (kernel knots on the table's grid)", "missed at first; UW-7 field-read-only-after-sort added"),
    "C15-7": ("relocation loop skips zero coefficients (`continue`) while the scratch array is uninitialised", "a table with an exact zero coefficient and dirty heap storage", "missed at first; CL-5 every-coefficient-relocated added"),
    "C16-7": ("`nquotes` dropped from the over-long-value test", "value with a quote whose length fits but length + quotes does not", "caught (KS-3)"),
    "C17-7": ("fitter's `bspline()` adds a recursion term only when its knot span exceeds `DBL_EPSILON`", "axis in tiny units (knot spacing below 2.2e-16)", "caught (GE-3)"),
    "C18-7": ("`splinetable_write_key` returns 1 when the C++ `write_key` returns false", "the same key written twice (false = overwritten, a success)", "missed at first; CW-3b (false after an effect is not a failure) added"),
    "C19-7": ("`estimateMemory` steps to HDU i+2 instead of looking `KNOTS<i>` up by name", "file with the extensions in another sequence (foreign / re-packed), convolution declared", "missed at first; SM-8 (extensions located as the reader locates them) added"),
    "C20-7": ("read guard relaxed to `ndim!=0` (a table holding only keys may be read into)", "`write_key` on an empty table, then `read_fits`: the key store is overwritten and leaked", "caught (TS-3b)"),
    "C01-8": ("per-call VLA scratch of `ndsplineeval` replaced by a grow-only `static std::vector`", "two or more threads evaluating const tables at once: shared basis buffer, values mix two points", "missed at first; RE-1 (no state kept between calls) added"),
    "C02-8": ("gradient lane fill rewritten with a fixed trip count `MAXDIM-1`: lane 7 never receives the value basis", "gradient of a 7-dimensional table (last component)", "caught (CL-4 lane wiring)"),
    "C03-8": ("`case 7` of the constant-order-3 block selects the order-2 vector core `<Float,7,2>`", "evaluator gradient of a 7-D table of order 3 everywhere", "caught (DP-1)"),
    "C04-8": ("margin tests of `searchcenters` compare with the stored extents instead of `knots[order]` / `knots[naxes]`", "a table whose extents differ from the fully supported knot range (after `convolve`, or an edited EXTENTS HDU)", "caught (SC-2, SC-5)"),
    "C05-8": ("row of recursive derivatives filled for `i < maxdegree` instead of `i <= order[n]`", "mixed orders with maxorder >= 2*order[n]+1, derivative order >= 2, centre near the top: reads past the knots", "missed at first; CL-10 (row range of the recursive reference) added"),
    "C06-8": ("reader's knot-order test made non-strict (`<=`): repeated knots refused", "any table with a repeated knot (clamped ends, doubled interior knot) written and read back", "missed at first under C06 (C07's VG-2 alarmed with a misleading text); VG-2 accepts the stricter guard, VG-2x (reader not stricter than well-formedness) added under C06"),
    "C07-8": ("gradient guard `ndim+1 > MAXDIM` relaxed to `ndim > MAXDIM`", "a valid 8-dimensional table that loads, then a gradient: 9 lanes into 8", "missed at first under C07 (caught under C03/C05: KB-3); C07 now runs KB-3"),
    "C08-8": ("the two writers' local guards merged into one shared guard that closes (the disk writer's had deleted)", "one transient write failure inside a long knot vector: the zero-padded file left behind loads as another table", "caught (ED-7; the rule first called the shared guard 'no guard', guard detection widened)"),
    "C09-8": ("`cholmod_l_drop(DBL_EPSILON, ...)` after the product in `slicemultiply` (same edit as C17-6, fit path)", "weights below ~1e-12 or data below ~1e-16 in absolute size", "missed at first under C09 (GE-5 ran under C17 only); GW-8 (no absolute threshold on the fit path) added"),
    "C10-8": ("released rows appended to the free set with one `memcpy` before the row-add loop", "two or more coupled rows released together through the incremental update path (one thread, data-free region)", "missed at first; SP-5 (free set grows by the row being added) added"),
    "C20-2": ("`extents[0] = nullptr` removed from the reader", "allocation failure at the 7th request with a non-zero-filling allocator", "caught"),
}
try:
    matrix = json.load(open("seeded/MATRIX.json"))
except FileNotFoundError:
    matrix = {}
rows = []
for d in sorted(glob.glob("seeded/*/meta.json")):
    m = json.load(open(d))
    sid = m["seed"]
    ch, needs, verdict = SUMMARY.get(sid, ("(see notes.md)", "(see notes.md)", ""))
    det = m.get("detected_by", [])
    mx = matrix.get(sid, {})
    rules = []
    for p, rl in (mx.get("caught_by") or {}).items():
        rules.append("%s: %s" % (p, ", ".join(rl)))
    if not rules:
        for p, v in (m.get("ran", {}).get("checks_with_patch") or {}).items():
            rr = sorted(set(re.findall(r": ([A-Z]+-[0-9a-zA-Z]+) \[", " ".join(v.get("reports", [])))))
            if v.get("exit") == 1:
                rules.append("%s: %s" % (p, ", ".join(rr)))
    rows.append("| %s | %s | %s | %s | %s | %s | %s |" % (sid, m["property"], ch, needs, "yes" if m.get("confirmed") else "NO",
                                                      "; ".join(rules) if rules else "—", verdict))
table = "| seed | property | change | needs | confirmed | reported by (check: rules) | verdict |\n|---|---|---|---|---|---|---|\n" + "\n".join(rows)
s = open("DESIGN.md").read()
a, b = "<!-- SEED-TABLE-BEGIN -->", "<!-- SEED-TABLE-END -->"
if a in s:
    s = s[:s.index(a) + len(a)] + "\n" + table + "\n" + s[s.index(b):]
    open("DESIGN.md", "w").write(s)
print("%d seeds in the table" % len(rows))
