#!/usr/bin/env python3
"""seed_prompt.py <round> [Cxx ...] — write /tmp/prompts/Cxx-r<round>.txt: the brief handed to an independent sub-agent that is to seed a
property-breaking change.  The agent sees only the property's text (title, statement, quantifier) and a list of what earlier rounds tried
(one line each, taken from tools/seed_table.py's SUMMARY — the change, never the rule that caught it), nothing from /verif."""
import json, os, re, sys

sys.path.insert(0, "/verif/tools")
src = open("/verif/tools/seed_table.py").read()
ns = {}
exec(src[src.index("SUMMARY = {"):src.index("try:\n    matrix")], ns)
SUMMARY = ns["SUMMARY"]
rnd = sys.argv[1]
only = sys.argv[2:]
props = {}
for l in open("/verif/properties.jsonl"):
    p = json.loads(l)
    props[p["id"]] = p
os.makedirs("/tmp/prompts", exist_ok=True)
T = """You are helping test a verification framework by playing the role of a developer who introduces a subtle regression.

You have your own scratch git worktree of the C/C++ library "photospline" (tensor-product B-spline tables: fitting, FITS storage, evaluation) at:
  {wt}
Work ONLY inside that directory (and {work} for scratch files). Do NOT read or touch /repo, /verif or any other /tmp/mut* directory.

The property the library is supposed to satisfy:

  Title: {title}
  Statement: {statement}
  Scope: {scope}

NOTE: colleagues have already tried the following changes; choose a DIFFERENT function or mechanism (ideally a different source file, or a different clause of the statement) so that the experiments are independent:
{tried}

YOUR TASK: make ONE small, realistic change to the library's source (the kind of edit a maintainer could plausibly make by mistake or as a well-meant "cleanup"/"optimisation"/refactor) that BREAKS this property, such that:
  1. the library still compiles (the project's own build), and
  2. the project's existing test suite still passes, and
  3. the breakage does NOT show up in ordinary use at once: it needs something specific to manifest — e.g. a particular thread interleaving, a fault or crash at a particular point, a multi-step sequence of operations, an unusual input (edge order/dimension/NaN/long key/full disk/allocation failure...), or two cooperating sites that each look fine alone.
Prefer changes to the code paths the property is about (not to tests, docs or build files). Keep it to a few lines. Do not add comments that announce the bug.

How to build and run the tests (takes ~2-3 minutes; use exactly this configuration; `libcphotospline` fails to build under -Werror with this compiler for a pre-existing, unrelated reason — that is expected, hence `-k 0`):
  cd {wt} && cmake -G Ninja -S . -B build -DCMAKE_BUILD_TYPE=RelWithDebInfo -DCMAKE_CXX_FLAGS=-Wno-error -DCMAKE_C_FLAGS=-Wno-error >/dev/null
  cmake --build build -j4 -- -k 0 >/dev/null 2>&1; ctest --test-dir build -j3 --timeout 900
All 3 ctest entries must pass (before and after your change). If you change the C interface file src/cinter/splinetable.cpp, additionally check it compiles with: g++ -std=gnu++11 -fsyntax-only -Wall -Wextra -DPHOTOSPLINE_INCLUDES_SPGLAM -Iinclude -I/usr/include/suitesparse src/cinter/splinetable.cpp

Then write a DEMONSTRATION: a small standalone program or script (C++/C/shell; put it in {work}/) that exercises the library built from your worktree and FAILS (non-zero exit, sanitizer report, hang detected by a timeout, wrong result...) with your change and PASSES on the unchanged code. Headers are in {wt}/include; you can compile the demo directly against the sources (e.g. g++ -std=gnu++11 -DPHOTOSPLINE_INCLUDES_SPGLAM -I{wt}/include -I/usr/include/suitesparse demo.cpp {wt}/src/core/*.cpp [{wt}/src/fitter/*.c compiled with gcc -std=gnu99] -lcfitsio -lspqr -lcholmod -lpthread) or link the libraries in {wt}/build. Useful tools available: ASan/UBSan (-fsanitize=address,undefined), valgrind, LD_PRELOAD shims, setrlimit. Test data: {wt}/test/test_data/*.fits. Verify the demo both ways. IMPORTANT: never use `git stash` (the stash is shared by all worktrees of this repository and other people are working in sibling worktrees); to test the unchanged code use `git diff > {work}/p.diff; git apply -R {work}/p.diff; ...; git apply {work}/p.diff`. The run.sh must create its build/scratch files with `mktemp -d` (not inside {work}) and remove them on exit.

DELIVERABLES (all under {work}/):
  - patch.diff   : output of `git -C {wt} diff` (only library source changes)
  - the demonstration source + a run.sh that builds and runs it given the path of a photospline source tree as $1 and exits 0 iff the property holds
  - notes.md     : 5-10 lines: what you changed, why the existing tests do not notice, what it needs in order to manifest, the exact commands you ran and their results (tests before/after, demo before/after)
Leave the worktree with your change applied (uncommitted). If, while exploring, you notice that the UNCHANGED code already misbehaves somewhere (a crash you had to avoid, a value that disagrees with your reference), add a short section 'Observations on the unchanged code' to notes.md saying exactly how to reproduce it. In your final answer, summarise the change in 3-4 sentences and give the file paths.
"""
for pid, p in sorted(props.items()):
    if only and pid not in only:
        continue
    tried = []
    for k, v in sorted(SUMMARY.items()):
        if not k.startswith(pid + "-"):
            continue
        m = re.match(r"same edit as (C\d\d-\d)", v[0])
        if m:
            v = SUMMARY[m.group(1)]
        line = "  - %s (needs: %s)" % (v[0], v[1])
        if line not in tried:
            tried.append(line)
    txt = T.format(wt="/tmp/mut%s-%s" % (rnd, pid), work="/tmp/mutwork%s-%s" % (rnd, pid), title=p["title"], statement=p["statement"],
                   scope=p.get("quantifier", ""), tried="\n".join(tried) if tried else "  (nothing yet)")
    open("/tmp/prompts/%s-r%s.txt" % (pid, rnd), "w").write(txt)
    print(pid, len(tried), "tried")
