#!/usr/bin/env python3
"""try_patch.py <patch.diff> [Cxx ...] — apply one patch to a scratch copy of /repo's HEAD and run the named checks (default: all) on it with
--repo; prints every report line.  Nothing in /repo or /verif/evidence is touched; the scratch copy is removed."""
import json, os, shutil, subprocess, sys, tempfile
from concurrent.futures import ThreadPoolExecutor

os.chdir("/verif")
patch = os.path.abspath(sys.argv[1])
props = sys.argv[2:] or [c["property_id"] for c in json.load(open("MANIFEST.json"))["checks"]]
d = tempfile.mkdtemp(prefix="psv-try-", dir="/tmp")
try:
    subprocess.check_call("git -C /repo archive HEAD include src test | tar -x -C %s" % d, shell=True)
    r = subprocess.run(["patch", "-p1", "-s", "-d", d, "-i", patch], capture_output=True, text=True)
    if r.returncode != 0:
        print("patch does not apply:", (r.stdout + r.stderr)[:300])
        sys.exit(3)
    env = dict(os.environ, PSV_EVIDENCE_DIR=d + "/_ev", PSV_CACHE_DIR=d + "/_cache")
    # first check warms the cache, the rest in parallel
    def run(p):
        rr = subprocess.run(["./check", p, "--tier", "quick", "--repo", d], capture_output=True, text=True, env=env)
        return p, rr.returncode, [l.replace(d + "/", "") for l in (rr.stdout + rr.stderr).splitlines() if not l.startswith(("VIOLATION", "KNOWN"))]
    res = [run(props[0])]
    with ThreadPoolExecutor(8) as ex:
        res += list(ex.map(run, props[1:]))
    fired = []
    for p, rc, lines in res:
        if rc != 0:
            fired.append(p)
            for l in lines[:8]:
                print("%s[%d]: %s" % (p, rc, l[:600]))
    print("FIRED:", " ".join(fired) if fired else "(none)")
finally:
    shutil.rmtree(d, ignore_errors=True)
