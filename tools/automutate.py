#!/usr/bin/env python3
"""automutate.py [--max N] [--seed S] [--files f1,f2] — mutation analysis OF THE CHECKS (not of the repository's tests): small syntactic
mutants (relational operator, logical connective, +-1 offset, deleted statement) are planted one at a time into the files the
properties are anchored in (scratch copies of /repo's HEAD), and every check whose property names that file runs on the mutated tree.
A survivor — a mutant that parses and that no check reports — marks a statement no rule looks at; survivors are triaged by hand
(equivalent / numerical / a gap).  Writes mutants/AUTO.json.  Nothing in /repo is touched."""
import json, os, random, re, shutil, subprocess, sys, tempfile
from concurrent.futures import ThreadPoolExecutor

os.chdir("/verif")
args = sys.argv[1:]
MAX = int(args[args.index("--max") + 1]) if "--max" in args else 300
SEED = int(args[args.index("--seed") + 1]) if "--seed" in args else 1
ONLY = args[args.index("--files") + 1].split(",") if "--files" in args else None
props = [json.loads(l) for l in open("properties.jsonl")]
by_file = {}
for p in props:
    for fn in p.get("anchors", {}).get("files", []):
        if fn.endswith((".h", ".cpp", ".c")) and not fn.startswith(("examples/", "src/python", "src/tools")):
            by_file.setdefault(fn, set()).add(p["id"])
REL = [(r"(?<![<>=!\-])<(?![<=])", "<="), (r"<=", "<"), (r"(?<![<>=!\-])>(?![>=])", ">="), (r">=", ">"), (r"==", "!="), (r"!=", "==")]
LOGIC = [(r"&&", "||"), (r"\|\|", "&&")]
OFF = [(r"\+ ?1\b", "+ 2"), (r"- ?1\b", "- 2"), (r"\+ ?1\b", ""), (r"- ?1\b", "")]


def candidates(path, rel):
    src = open(path).read().split("\n")
    out = []
    depth_ok = False
    for ln, line in enumerate(src):
        s = line.strip()
        if not s or s.startswith(("//", "/*", "*", "#", "template", "static_assert", "typedef", "using", "namespace", "throw", "+std::", "+\"", "\"")):
            continue
        if "std::runtime_error" in s or "std::logic_error" in s or "printf" in s or "assert(" in s or "static_assert" in s:
            continue
        code = line.split("//")[0]
        if '"' in code:
            continue
        for grp, name in ((REL, "rel"), (LOGIC, "logic"), (OFF, "off")):
            for pat, rep in grp:
                for m in re.finditer(pat, code):
                    if name == "rel" and ("<" in pat or ">" in pat) and re.search(r"(template|static_cast|reinterpret_cast|const_cast|std::\w+<|\w+<\w+>|#include|->)", code):
                        continue
                    new = code[:m.start()] + rep + code[m.end():]
                    out.append((ln, name, "%s -> %s" % (m.group(0), rep or "(removed)"), new + line[len(code):]))
        if re.match(r"^[\w\[\]\.\->\*\(\) ]+ ?[\+\-\*]?= ?[^=].*;$", s) and not re.match(r"^(const |unsigned |int |long |double |float |size_t |uint\d+_t |auto |bool |char )", s) and "for" not in s:
            out.append((ln, "del", "statement deleted", ""))
    return out


def run_one(job):
    rel, ln, kind, what, newline = job
    d = tempfile.mkdtemp(prefix="psv-auto-", dir="/tmp")
    try:
        subprocess.check_call("git -C /repo archive HEAD include src test | tar -x -C %s" % d, shell=True)
        path = os.path.join(d, rel)
        src = open(path).read().split("\n")
        old = src[ln]
        src[ln] = newline
        open(path, "w").write("\n".join(src))
        env = dict(os.environ, PSV_EVIDENCE_DIR=d + "/_ev", PSV_CACHE_DIR=d + "/_cache")
        res = {}
        for p in sorted(by_file[rel]):
            r = subprocess.run(["./check", p, "--tier", "quick", "--repo", d], capture_output=True, text=True, env=env)
            res[p] = r.returncode
            if r.returncode == 2 and ("does not parse" in r.stdout + r.stderr or "error:" in r.stdout + r.stderr):
                return dict(file=rel, line=ln + 1, kind=kind, what=what, old=old.strip(), new=newline.strip(), status="invalid", res=res)
            if r.returncode == 1:
                rules = sorted(set(l.split(": ", 1)[1].split(" [")[0] for l in r.stdout.splitlines() if ": " in l and " [" in l and not l.startswith(("VIOLATION", "KNOWN", p + ":"))))
                return dict(file=rel, line=ln + 1, kind=kind, what=what, old=old.strip(), new=newline.strip(), status="killed", by=p, rules=rules[:3])
        st = "broken" if any(v == 2 for v in res.values()) else "SURVIVED"
        return dict(file=rel, line=ln + 1, kind=kind, what=what, old=old.strip(), new=newline.strip(), status=st, res=res)
    finally:
        shutil.rmtree(d, ignore_errors=True)


jobs = []
for rel in sorted(by_file):
    if ONLY and not any(rel.endswith(o) for o in ONLY):
        continue
    for (ln, kind, what, newline) in candidates(os.path.join("/repo", rel), rel):
        jobs.append((rel, ln, kind, what, newline))
random.Random(SEED).shuffle(jobs)
jobs = jobs[:MAX]
print("%d mutants over %d files" % (len(jobs), len(by_file)), flush=True)
out = []
with ThreadPoolExecutor(4) as ex:
    for r in ex.map(run_one, jobs):
        out.append(r)
        if r["status"] in ("SURVIVED",):
            print("SURVIVED %s:%d [%s] %s | %s" % (r["file"], r["line"], r["kind"], r["what"], r["old"][:100]), flush=True)
tot = {}
for r in out:
    tot[r["status"]] = tot.get(r["status"], 0) + 1
print(tot)
json.dump(dict(seed=SEED, totals=tot, mutants=out), open("mutants/AUTO-%d.json" % SEED, "w"), indent=1)
