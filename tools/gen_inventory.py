#!/usr/bin/env python3
"""gen_inventory.py — write psv/inventory.json: the functions (file basename, name) defined in /repo's sources today.  The normal form folds
a helper that is NOT in this inventory (one introduced by a later refactoring), has a single call site and is private to its file or header
back into its caller before the rules run (N11); functions of the inventory are never folded, so the rules see today's tree as it is."""
import json, os, sys
sys.path.insert(0, os.path.dirname(os.path.dirname(os.path.abspath(__file__))))
from psv import core
core.NORMALIZE_FOLD = False
core.NORMALIZE_NEW_LOCALS = False
core.NORMALIZE_LOOPS = False
P = core.load(tier="thorough")
inv = sorted({"%s:%s" % (os.path.basename(f.file), f.name) for v in P.variants.values() for f in v.values() if f.file.startswith(core.REPO)})
# locals (file:function:name) and functions that contain a switch: what the rules' literal shapes were written against
loc = set()
sw = set()
tails = set()
for v in P.variants.values():
    for f in v.values():
        if not f.file.startswith(core.REPO):
            continue
        for n in f.nodes:
            if n["k"] == "DeclStmt":
                for d in n.get("decls", []):
                    if d.get("dk") == "Var":
                        loc.add("%s:%s:%s" % (os.path.basename(f.file), f.name, d["name"]))
            elif n["k"] == "SwitchStmt":
                sw.add("%s:%s" % (os.path.basename(f.file), f.name))
            elif n["k"] in ("ForStmt", "WhileStmt", "DoStmt", "CXXForRangeStmt"):
                b = n.get("body", -1)
                if b is not None and b >= 0 and f.nodes[b]["k"] == "CompoundStmt":
                    kids = [x for x in f.nodes[b]["ch"] if x >= 0]
                    if kids and f.nodes[kids[-1]]["k"] == "IfStmt" and f.nodes[kids[-1]].get("else", -1) >= 0:
                        tails.add("%s:%s" % (os.path.basename(f.file), f.name))
json.dump(dict(functions=inv, locals=sorted(loc), switches=sorted(sw), else_tails=sorted(tails)), open(os.path.join(core.VERIF, "psv", "inventory.json"), "w"), indent=0)
print(len(inv), "functions,", len(loc), "locals,", len(sw), "functions with a switch,", len(tails), "with a loop body ending in if/else")
