#!/usr/bin/env python3
"""seed_matrix.py [--in-repo] [--jobs N] [seed-id ...] — pass over the kept seeds: apply each seeded/<id>/patch.diff, run every claimed
check's quick command on the patched tree, and record which checks report it.  Writes seeded/MATRIX.json (entries of seeds not named on
the command line are kept).

Default: each patch is applied to a scratch copy of /repo's HEAD (git archive) and the checks run with --repo <scratch>, several seeds
in parallel; /repo is not touched.  --in-repo: the patch is applied to /repo ITSELF (git apply), the checks run exactly as registered in
MANIFEST.json, and the patch is undone straight afterwards (git checkout -- .) — serial, to be run when nothing else uses /repo."""
import glob, json, os, shutil, subprocess, sys, tempfile
from concurrent.futures import ThreadPoolExecutor

os.chdir(os.path.dirname(os.path.dirname(os.path.abspath(__file__))))     # /verif, or a snapshot of it (vp run)
if not os.path.exists("bin/psx"):
    os.environ.setdefault("PSV_PSX", "/verif/bin/psx")
args = sys.argv[1:]
in_repo = "--in-repo" in args
jobs = 4
if "--jobs" in args:
    jobs = int(args[args.index("--jobs") + 1])
    del args[args.index("--jobs"):args.index("--jobs") + 2]
only = [a for a in args if not a.startswith("--")]
claimed = [c["property_id"] for c in json.load(open("MANIFEST.json"))["checks"]]
try:
    matrix = json.load(open("seeded/MATRIX.json"))
except FileNotFoundError:
    matrix = {}


BASE = subprocess.check_output(["git", "-C", "/repo", "rev-parse", "HEAD"], text=True).strip()      # one commit for the whole pass


def rules_of(out, p):
    return sorted(set(l.split(": ", 1)[1].split(" [")[0] for l in out.splitlines()
                      if ": " in l and " [" in l and not l.startswith(("VIOLATION", "KNOWN", p + ":"))))


def run_checks(meta, repo_args, env):
    res = {}
    first = meta["property"]
    for p in [first] + [q for q in claimed if q != first]:
        rr = subprocess.run(["./check", p, "--tier", "quick"] + repo_args, capture_output=True, text=True, env=env)
        res[p] = dict(exit=rr.returncode, rules=rules_of(rr.stdout, p))
    return res


def one(sid):
    d = "seeded/%s" % sid
    meta = json.load(open(d + "/meta.json"))
    patch = os.path.abspath(d + "/patch.diff")
    if in_repo:
        r = subprocess.run(["git", "-C", "/repo", "apply", "--check", patch], capture_output=True, text=True)
        if r.returncode != 0:
            return sid, dict(property=meta["property"], applies=False, note=r.stderr.strip()[:200])
        subprocess.check_call(["git", "-C", "/repo", "apply", patch])
        try:
            res = run_checks(meta, [], dict(os.environ, PSV_EVIDENCE_DIR="/tmp/seedmatrix-ev"))
        finally:
            subprocess.check_call(["git", "-C", "/repo", "checkout", "--", "."])
    else:
        t = tempfile.mkdtemp(prefix="psv-seed-", dir="/tmp")
        try:
            subprocess.check_call("git -C /repo archive %s include src test | tar -x -C %s" % (BASE, t), shell=True)
            r = subprocess.run(["patch", "-p1", "-s", "-d", t, "-i", patch], capture_output=True, text=True)
            if r.returncode != 0:
                return sid, dict(property=meta["property"], applies=False, note=(r.stdout + r.stderr).strip()[:200])
            res = run_checks(meta, ["--repo", t], dict(os.environ, PSV_EVIDENCE_DIR=t + "/_ev", PSV_CACHE_DIR=t + "/_cache"))
        finally:
            shutil.rmtree(t, ignore_errors=True)
    return sid, dict(property=meta["property"], applies=True, target_check_exit=res[meta["property"]]["exit"],
                     caught_by={p: v["rules"] for p, v in res.items() if v["exit"] == 1},
                     analysis_broken={p: True for p, v in res.items() if v["exit"] == 2}, mode="in-repo" if in_repo else "scratch")


sids = []
for d in sorted(glob.glob("seeded/*/")):
    sid = os.path.basename(d.rstrip("/"))
    if only and sid not in only:
        continue
    if not os.path.exists(d + "meta.json") or not json.load(open(d + "meta.json")).get("confirmed"):
        continue
    sids.append(sid)
if in_repo:
    assert subprocess.run(["git", "-C", "/repo", "status", "--porcelain", "--untracked-files=no"], capture_output=True, text=True).stdout.strip() == "", "/repo has local changes"
    jobs = 1
with ThreadPoolExecutor(jobs) as ex:
    for sid, v in ex.map(one, sids):
        matrix[sid] = v
        print(sid, v["property"], "target exit", v.get("target_check_exit"), v.get("caught_by"), "BROKEN %s" % sorted(v["analysis_broken"]) if v.get("analysis_broken") else "",
              "" if v.get("applies") else "DOES NOT APPLY: " + v.get("note", ""), flush=True)
        json.dump(matrix, open("seeded/MATRIX.json", "w"), indent=1, sort_keys=True)
subprocess.run(["rm", "-rf", "/tmp/seedmatrix-ev"])
missed = [s for s in sids if matrix[s].get("applies") and matrix[s].get("target_check_exit") != 1]
print("%d seeds, target check silent on: %s" % (len(sids), missed))
