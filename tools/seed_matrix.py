#!/usr/bin/env python3
"""seed_matrix.py — final pass over the kept seeds: apply each seeded/<id>/patch.diff to /repo ITSELF (git apply), run every claimed
check's quick command, undo straight afterwards (git checkout -- .), and record which checks report it.  Writes seeded/MATRIX.json and
restores the evidence files by re-running the checks on the unchanged tree at the end."""
import json, os, subprocess, sys, glob

os.chdir("/verif")
claimed = [c["property_id"] for c in json.load(open("MANIFEST.json"))["checks"]]
assert subprocess.run(["git", "-C", "/repo", "status", "--porcelain", "--untracked-files=no"], capture_output=True, text=True).stdout.strip() == "", "/repo has local changes"
matrix = {}
for d in sorted(glob.glob("seeded/*/")):
    sid = os.path.basename(d.rstrip("/"))
    patch = os.path.join(d, "patch.diff")
    meta = json.load(open(os.path.join(d, "meta.json")))
    if not meta.get("confirmed"):
        continue
    r = subprocess.run(["git", "-C", "/repo", "apply", "--check", os.path.abspath(patch)], capture_output=True, text=True)
    if r.returncode != 0:
        matrix[sid] = dict(property=meta["property"], applies=False, note=r.stderr.strip()[:200])
        continue
    subprocess.check_call(["git", "-C", "/repo", "apply", os.path.abspath(patch)])
    try:
        res = {}

        def one(p):
            rr = subprocess.run(["./check", p, "--tier", "quick"], capture_output=True, text=True, env=dict(os.environ, PSV_EVIDENCE_DIR="/tmp/seedmatrix-ev"))
            rules = sorted(set(l.split(": ", 1)[1].split(" [")[0] for l in rr.stdout.splitlines() if ": " in l and " [" in l and not l.startswith(("VIOLATION", "KNOWN", p + ":"))))
            return p, dict(exit=rr.returncode, rules=rules)
        first = meta["property"]
        res[first] = one(first)[1]                       # also fills the extraction cache for this tree
        from concurrent.futures import ThreadPoolExecutor
        with ThreadPoolExecutor(8) as ex:
            for p, v in ex.map(one, [p for p in claimed if p != first]):
                res[p] = v
    finally:
        subprocess.check_call(["git", "-C", "/repo", "checkout", "--", "."])
    matrix[sid] = dict(property=meta["property"], applies=True, target_check_exit=res[meta["property"]]["exit"],
                       caught_by={p: v["rules"] for p, v in res.items() if v["exit"] == 1},
                       analysis_broken={p: True for p, v in res.items() if v["exit"] == 2})
    print(sid, meta["property"], "target exit", res[meta["property"]]["exit"], {p: v["rules"] for p, v in res.items() if v["exit"] == 1})
json.dump(matrix, open("seeded/MATRIX.json", "w"), indent=1)
subprocess.run(["rm", "-rf", "/tmp/seedmatrix-ev"])
