#!/usr/bin/env python3
"""benign_run.py [set ...] — behaviour-preserving refactorings written by independent sub-agents (benign/<set>/pNN.diff, each against the
unchanged tree) are applied one at a time to a scratch copy of /repo's HEAD; every check must stay silent (exit 0) on each.
Prints one line per patch and the reports of every check that raised an alarm; writes benign/RESULT.json."""
import glob, json, os, shutil, subprocess, sys, tempfile
from concurrent.futures import ThreadPoolExecutor

os.chdir(os.path.dirname(os.path.dirname(os.path.abspath(__file__))))     # /verif, or a snapshot of it (vp run): edits made meanwhile do not disturb the pass
if not os.path.exists("bin/psx"):
    os.environ.setdefault("PSV_PSX", "/verif/bin/psx")
sets = sys.argv[1:] or sorted(os.path.basename(d.rstrip("/")) for d in glob.glob("benign/*/"))
claimed = [c["property_id"] for c in json.load(open("MANIFEST.json"))["checks"]]


def one(patch):
    d = tempfile.mkdtemp(prefix="psv-benign-", dir="/tmp")
    try:
        subprocess.check_call("git -C /repo archive HEAD include src test | tar -x -C %s" % d, shell=True)
        r = subprocess.run(["patch", "-p1", "-s", "-d", d, "-i", os.path.abspath(patch)], capture_output=True, text=True)
        if r.returncode != 0:
            return patch, None, ["patch does not apply: " + (r.stdout + r.stderr)[:200]]
        res, rep = {}, []
        env = dict(os.environ, PSV_EVIDENCE_DIR=d + "/_ev", PSV_CACHE_DIR=d + "/_cache")
        for p in claimed:
            rr = subprocess.run(["./check", p, "--tier", "quick", "--repo", d], capture_output=True, text=True, env=env)
            res[p] = rr.returncode
            if rr.returncode != 0:
                rep += ["%s: %s" % (p, l[:400].replace(d + "/", "")) for l in (rr.stdout + rr.stderr).splitlines()
                        if not l.startswith(("VIOLATION", "KNOWN", p + ":"))][:6]
        return patch, res, rep
    finally:
        shutil.rmtree(d, ignore_errors=True)


KNOWN_LIMITS = {"benign/A2/p08.diff", "benign/A2/p09.diff", "benign/A2/p10.diff"}      # DESIGN 6.2: refactorings the normal form does not follow
together = "--together" in sets
sets = [s for s in sets if not s.startswith("--")] or sorted(os.path.basename(d.rstrip("/")) for d in glob.glob("benign/*/"))
if together:
    # all patches of a set applied to one scratch copy (those known not to be followed are left out): interactions between rewrites
    for sname in sets:
        d = tempfile.mkdtemp(prefix="psv-benign-", dir="/tmp")
        try:
            subprocess.check_call("git -C /repo archive HEAD include src test | tar -x -C %s" % d, shell=True)
            n = 0
            for pth in sorted(glob.glob("benign/%s/p*.diff" % sname)):
                if pth in KNOWN_LIMITS:
                    continue
                if subprocess.run(["patch", "-p1", "-s", "-d", d, "-i", os.path.abspath(pth)], capture_output=True).returncode == 0:
                    n += 1
            env = dict(os.environ, PSV_EVIDENCE_DIR=d + "/_ev", PSV_CACHE_DIR=d + "/_cache")
            bad = [p for p in claimed if subprocess.run(["./check", p, "--tier", "quick", "--repo", d], capture_output=True, text=True, env=env).returncode != 0]
            print("set %-3s %2d patches together: %s" % (sname, n, "silent" if not bad else "ALARM " + ",".join(bad)))
        finally:
            shutil.rmtree(d, ignore_errors=True)
    sys.exit(0)
patches = [p for s in sets for p in sorted(glob.glob("benign/%s/p*.diff" % s))]
out = {}
with ThreadPoolExecutor(int(os.environ.get("BENIGN_JOBS", "6"))) as ex:
    for patch, res, rep in ex.map(one, patches):
        bad = sorted(p for p, rc in (res or {}).items() if rc != 0)
        out[patch] = dict(alarms=bad, reports=rep)
        print("%-24s %s" % (patch, "silent" if res is not None and not bad else "ALARM " + ",".join(bad) if res is not None else "NOT APPLIED"))
        for l in rep:
            print("      " + l)
json.dump(out, open("benign/RESULT.json", "w"), indent=1)
print("%d patches, %d with alarms" % (len(out), sum(1 for v in out.values() if v["alarms"] or v["reports"])))
