#!/usr/bin/env python3
"""Regenerate MANIFEST.json from the claim table below (keeps it valid at all times)."""
import json, os, sys
HERE = os.path.dirname(os.path.dirname(os.path.abspath(__file__)))
sys.path.insert(0, HERE)
from tools.claims import CLAIMS, NOT_APPLICABLE, PENDING  # noqa

checks = []
for pid in sorted(CLAIMS):
    c = CLAIMS[pid]
    checks.append({
        "property_id": pid,
        "quick_cmd": "./check %s --tier quick" % pid,
        "thorough_cmd": "./check %s --tier thorough" % pid,
        "evidence_file": "evidence/%s.json" % pid,
        "replay_cmd_template": "./check --replay {path}",
        "engine": "psv",
        "level_claimed": {"category": "other", "text": c["text"], "design_ref": c.get("design_ref", "DESIGN.md §4 " + pid)},
        "level_note": c["note"],
        "technique": c["technique"],
    })
na = [{"property_id": p, "reason": r} for p, r in sorted(NOT_APPLICABLE.items())]
na += [{"property_id": p, "reason": r} for p, r in sorted(PENDING.items()) if p not in CLAIMS]
m = {
    "version": 1,
    "setup_cmd": "./setup.sh",
    "hooks": {
        "guard": "CNWEAVER_PHOTOSPLINE_VERIF",
        "enable": "no hooks: all analysis is external to /repo (clang front end over the working tree); the guard is reserved and unused",
        "baseline_off_cmd": "/verif/scripts/baseline_off.sh",
        "source_commits": [],
        "add_only": True,
    },
    "engines": [{
        "name": "psv",
        "path": "psv/",
        "serves_properties": sorted(CLAIMS),
        "kind_free_text": "custom static analysis: libTooling extractor (psx: typed AST + clang::CFG of instantiated templates and the C fitter) "
                          "and repository-specific rule engines in Python (dataflow, typestate, effect summaries, clone/sibling agreement, schema agreement)",
    }],
    "checks": checks,
    "not_applicable": na,
    "notes": "Static analysis only: nothing from /repo is executed by a check. Exit 0 = every structural obligation of the property is discharged on "
             "/repo's working tree (known findings printed as KNOWN-FINDING); exit 1 = VIOLATION lines; exit 2 = analysis broken (unit does not parse, "
             "anchor vanished, rule below its instance floor, uncovered source file). See DESIGN.md.",
}
with open(os.path.join(HERE, "MANIFEST.json"), "w") as fh:
    json.dump(m, fh, indent=1)
print("MANIFEST.json: %d checks, %d not applicable" % (len(checks), len(na)))
